package main

import (
	"k8s.io/apimachinery/pkg/watch"
	"context"
	"sync/atomic"
	"errors"
	"fmt"
	"time"

	"verifharness/enc"
	"verifharness/fakeapi"
	. "verifharness/kobj"
	"verifharness/sched"

	lifecycle "github.com/boz/go-lifecycle"
	"github.com/boz/kcache"
	"github.com/boz/kcache/client"
	"github.com/boz/kcache/filter"
	pkgerrors "github.com/pkg/errors"
	metav1 "k8s.io/apimachinery/pkg/apis/meta/v1"
)

func init() {
	commands["C03"] = runC03
	commands["C14"] = runC14
}

// ---------------------------------------------------------------------
// C03

type relistRun struct {
	seed     int64
	level    int
	period   time.Duration
	latency  time.Duration
	mode     string // watch behaviour
	filt     *Filt
	phases   [][]wstep
	deadlock string
	problems []string
	checks   []enc.T // (6 ...) cases for the model runner
	lists    int
	watches  int
	nchecks  int
}

var watchModes = []string{"healthy", "never-connects", "connect-hangs", "closes", "drops", "duplicates", "frames", "mixed", "replays", "overflow", "unversioned"}

func runRelist(c *Ctx, r *relistRun) {
	r.deadlock = sched.Bubble(c.T, func() {
		srv := fakeapi.New()
		srv.SnapshotAtStart = r.seed%3 == 0 // a list answers with the state of the moment it was asked (the watch may overtake it)
		srv.ShuffleLists = r.seed%4 == 1 // the items of each list in another order
		srv.StaleDuplicates = r.seed%4 == 3 // lists that name a key twice, the older version first
		srv.ListLatency = func(int) time.Duration { return r.latency }
		srv.WatchBehave = func(n int, rv string) string {
			switch r.mode {
			case "never-connects":
				return fakeapi.ConnectError(n)
			case "connect-hangs":
				return "hang"
			case "mixed":
				return []string{"ok", fakeapi.ConnectError(n), "ok", "hang", "ok"}[n%5]
			}
			return "ok"
		}
		srv.Set(1, 1, labSets[1], 1)
		srv.Set(1, 2, labSets[0], 1)
		srv.Unversioned = r.mode == "unversioned"
		var ct *ctl
		var slow atomic.Bool
		if r.mode == "overflow" {
			// a controller that is slow to apply events (its filter takes 20ms of
			// virtual time per call while `slow` is set): bursts overflow the
			// session's and the watcher's EventBufsiz buffers
			r.filt = nil
			ct = newCtlWith(srv, r.seed, r.level, r.period, filter.FN(func(metav1.Object) bool {
				if slow.Load() {
					time.Sleep(20 * time.Millisecond)
				}
				return true
			}))
		} else if r.filt != nil {
			ct = newCtlWith(srv, r.seed, r.level, r.period, r.filt.Go())
		} else {
			ct = newCtlWith(srv, r.seed, r.level, r.period, nil)
		}
		closed := false
		defer func() {
			if !closed {
				ct.c.Close()
			}
			ct.pert.SetLevel(0)
			sched.Settle()
		}()
		// wait for readiness (the first list may be slow)
		time.Sleep(r.latency + time.Millisecond)
		ct.pert.Barrier()
		if !isClosed(ct.c.Ready()) {
			r.problems = append(r.problems, "controller not ready after the first list completed")
			return
		}
		sub, err := ct.c.Subscribe()
		if err != nil {
			r.problems = append(r.problems, "Subscribe failed: "+err.Error())
			return
		}
		seedObjs, _ := ct.c.Cache().List()
		m := newMirror(sub, seedObjs)
		errs := 0
		watchOff := r.mode == "never-connects" || r.mode == "connect-hangs"
		checkConverged := func(what string, objs []*Obj) {
			var want []int
			if r.filt != nil {
				want = acceptedIDs(objs, r.filt.Go())
			} else {
				want = objIDs(objs)
			}
			got, err := cacheIDs(ct.c.Cache())
			if err != nil {
				r.problems = append(r.problems, what+": cache read failed: "+err.Error())
				return
			}
			r.nchecks++
			if !sameInts(got, want) {
				r.problems = append(r.problems, fmt.Sprintf("%s: cache %v differs from the list's accepted objects %v", what, got, want))
			}
			if mi := m.ids(); !sameInts(mi, got) {
				r.problems = append(r.problems, fmt.Sprintf("%s: a subscriber that replays events holds %v, the cache %v", what, mi, got))
			}
			ft := enc.L(enc.I(0))
			if r.filt != nil {
				ft = r.filt.Enc()
			}
			r.checks = append(r.checks, enc.L(enc.I(6), ft, EncObjs(objs), enc.Ints(got)))
		}
		lastChecked := 0
		lastRepaired := 0
		for pi, phase := range r.phases {
			for _, s := range phase {
				switch s.Kind {
				case 7:
					ct.pert.Barrier()
				case 8:
					time.Sleep(time.Duration(s.K) * time.Millisecond)
				case 11:
					srv.DropNext(s.K)
				case 12:
					srv.DupNext(s.K)
				case 13:
					srv.ReplayLast(s.K)
				case 15:
					// graceful deletion begins: the object gets a deletionTimestamp and stays
					srv.MarkTerminating(s.NS, s.NM)
				case 14:
					// a burst the slow controller cannot keep up with
					slow.Store(true)
					before := m.count()
					for k := 0; k < s.K; k++ {
						srv.Set(1+k%2, 1+k%3, labSets[k%3], 1)
					}
					time.Sleep(time.Duration(s.K) * 25 * time.Millisecond)
					slow.Store(false)
					c.Stat("overflow_bursts", 1)
					if got := m.count() - before; got < s.K {
						c.Stat("overflow_changes_not_seen_as_events", s.K-got)
					}
				default:
					applyStep(srv, s, &errs)
				}
				if r.mode == "closes" {
					srv.CloseStreamsAfter(2)
				}
				// whatever the watch does: once a list has been applied, nothing that
				// was already gone (deleted or superseded) at that list's snapshot is
				// still cached — a list repairs what the watch lost, also a list that
				// the watch has overtaken while it was in flight.  (Not where the server
				// replays old history on the watch: then dead objects legitimately return
				// until the next list.)
				if !watchOff && r.mode != "replays" && r.mode != "duplicates" && r.mode != "overflow" {
					ct.pert.Barrier()
					ls, _ := srv.Calls()
					for i := len(ls) - 1; i >= 0; i-- {
						if !ls[i].End.IsZero() && ls[i].Kind == fakeapi.ListOK {
							if ls[i].N > lastRepaired {
								lastRepaired = ls[i].N
								diedAt := map[int]int{}
								cur := map[[2]int]int{}
								for _, e := range srv.Log() {
									k := [2]int{e.Obj.NS, e.Obj.NM}
									if old, ok := cur[k]; ok {
										diedAt[old] = e.Version
									}
									if e.Type == watch.Deleted {
										delete(cur, k)
										diedAt[e.Obj.ID] = e.Version
									} else {
										cur[k] = e.Obj.ID
									}
								}
								got, _ := cacheIDs(ct.c.Cache())
								for _, id := range got {
									if d, dead := diedAt[id]; dead && d <= ls[i].Version {
										r.problems = append(r.problems, fmt.Sprintf("after list %d (snapshot at version %d, watch %s) the cache still holds object %d, which was gone at version %d: the list did not repair it", ls[i].N, ls[i].Version, r.mode, id, d))
									}
								}
							}
							break
						}
					}
				}
				// with the watch out of action the cache can only change at a
				// relist: right after each completed list it must equal that list
				if watchOff {
					ct.pert.Barrier()
					ls, _ := srv.Calls()
					for i := len(ls) - 1; i >= 0; i-- {
						if !ls[i].End.IsZero() && ls[i].Kind == fakeapi.ListOK {
							if ls[i].N > lastChecked {
								lastChecked = ls[i].N
								checkConverged(fmt.Sprintf("after list %d (watch %s)", ls[i].N, r.mode), srv.ObjectsAt(ls[i].Version))
							}
							break
						}
					}
				}
			}
			// the server is quiet now: after at most one further relist the cache
			// equals the server's accepted objects
			waitRelist := func(what string) bool {
				tq := time.Now()
				deadline := tq.Add(4*(r.period+r.latency) + 10*time.Second)
				for time.Now().Before(deadline) {
					time.Sleep(r.period / 4)
					ct.pert.Barrier()
					ls, _ := srv.Calls()
					for _, l := range ls {
						if !l.Start.Before(tq) && !l.End.IsZero() {
							return true
						}
					}
				}
				r.problems = append(r.problems, fmt.Sprintf("phase %d: no list completed within %v after %s (relisting stopped)", pi, deadline.Sub(tq), what))
				return false
			}
			if !waitRelist("the server quiesced") {
				break
			}
			checkConverged(fmt.Sprintf("phase %d: after one relist on a quiet server (watch %s)", pi, r.mode), srv.Objects())
			if r.mode == "replays" {
				// the server is still quiet (the next list carries the same
				// resourceVersion) and the stream replays old history: deletes of
				// objects that exist again, creates of objects that are gone.  The
				// next relist repairs whatever that did to the cache.
				ct.pert.Barrier()
				srv.ReplayLast(3)
				c.Stat("stale_frames_on_quiet_server", srv.ReplayStale(2))
				if !waitRelist("a replay on a quiet server") {
					break
				}
				checkConverged(fmt.Sprintf("phase %d: after a replayed stretch of history and one relist on a quiet server", pi), srv.Objects())
			}
		}
		_, bad, pre := m.snapshot()
		for _, b := range bad {
			r.problems = append(r.problems, "subscriber received an ill-formed event: "+b)
		}
		if pre > 0 {
			r.problems = append(r.problems, "events delivered before Ready")
		}
		ls, ws := srv.Calls()
		r.lists, r.watches = len(ls), len(ws)
		// and it must still shut down
		done := make(chan struct{})
		go func() { ct.c.Close(); close(done) }()
		ct.pert.SetLevel(0)
		sched.Settle()
		closed = true
		if !isClosed(done) || !isClosed(ct.c.Done()) {
			r.problems = append(r.problems, "Close() does not return / Done() not closed")
		}
	})
}

func randomPhase(c *Ctx, mode string) []wstep {
	var steps []wstep
	k := 3 + c.Rng.Intn(5)
	for j := 0; j < k; j++ {
		switch x := c.Rng.Intn(10); {
		case x < 5:
			steps = append(steps, wstep{0, 1 + c.Rng.Intn(2), 1 + c.Rng.Intn(3), c.Rng.Intn(3), 0})
		case x < 7:
			steps = append(steps, wstep{1, 1 + c.Rng.Intn(2), 1 + c.Rng.Intn(3), 0, 0})
		case x == 7 && j%2 == 0:
			steps = append(steps, wstep{Kind: 15, NS: 1 + c.Rng.Intn(2), NM: 1 + c.Rng.Intn(3)})
		case x == 7:
			steps = append(steps, wstep{Kind: 8, K: c.Rng.Intn(3000)})
		default:
			switch mode {
			case "drops":
				steps = append(steps, wstep{Kind: 11, K: 1 + c.Rng.Intn(3)})
			case "duplicates":
				steps = append(steps, wstep{Kind: 12, K: 1 + c.Rng.Intn(3)})
			case "replays":
				steps = append(steps, wstep{Kind: 13, K: 1 + c.Rng.Intn(4)})
			case "overflow":
				steps = append(steps, wstep{Kind: 14, K: 220 + c.Rng.Intn(100)})
			case "frames":
				steps = append(steps, wstep{Kind: []int{4, 5, 9, 16, 17, 18, 19, 20, 21}[c.Rng.Intn(9)]})
			case "closes", "mixed":
				steps = append(steps, wstep{Kind: 2})
			default:
				steps = append(steps, wstep{Kind: 7})
			}
		}
	}
	return steps
}

func runC03(c *Ctx) {
	sharedClient(c, "C03")
	n := 6
	if !c.Quick() {
		n = 600
	}
	periods := []time.Duration{2 * time.Second, 7 * time.Second}
	filts := []*Filt{nil, {Tag: FLabels, Map: Map{{1, 1}}}, {Tag: FNot, Children: []*Filt{{Tag: FNSName, IDs: []ID2{{1, 1}}}}}}
	runs := 0
	for rep := 0; rep < n; rep++ {
		for mi, mode := range watchModes {
			p := periods[(rep+mi)%2]
			lat := []time.Duration{0, p / 2, p + p/2}[(rep+mi)%3]
			r := &relistRun{seed: c.Seed*100 + int64(runs), level: (rep + mi) % 4, period: p, latency: lat, mode: mode, filt: filts[(rep+mi)%3]}
			for i := 0; i < 3; i++ {
				r.phases = append(r.phases, randomPhase(c, mode))
			}
			c.Now(fmt.Sprintf("C03 run seed=%d mode=%s period=%v latency=%v level=%d", r.seed, r.mode, r.period, r.latency, r.level))
			runRelist(c, r)
			runs++
			c.Rep.Evaluations++
			what := fmt.Sprintf("watch=%s period=%v list-latency=%v perturbation=%d", mode, p, lat, r.level)
			replay := map[string]interface{}{"scenario": what, "seed": r.seed, "phases": fmt.Sprint(r.phases), "lists": r.lists, "watches": r.watches}
			if r.filt != nil {
				replay["filter"] = r.filt.Enc().String()
			}
			if r.deadlock != "" {
				replay["deadlock"] = r.deadlock
				c.Violation("", "the controller hangs (bubble deadlock): "+what, replay)
			}
			for _, p := range r.problems {
				c.Violation("", p+" ["+what+"]", replay)
			}
			for _, t := range r.checks {
				c.Case(t)
			}
			if r.lists >= 3 {
				c.DistinctCase(what + fmt.Sprint(r.seed))
			}
			c.Stat("lists", r.lists)
			c.Stat("watch_calls", r.watches)
			c.Stat("convergence_checks", r.nchecks)
			c.Stat("mode_"+mode, 1)
			if runs == 4 {
				c.Sample(map[string]interface{}{"scenario": what, "phases": fmt.Sprint(r.phases), "lists": r.lists})
			}
		}
	}
	// stale buffered watch events at a relist
	nst := 12
	if !c.Quick() {
		nst = 400
	}
	for i := 0; i < nst; i++ {
		problems, dl, chk, lists := staleBufferRun(c, c.Seed*7+int64(i), i%2)
		runs++
		c.Rep.Evaluations++
		what := fmt.Sprintf("stale buffered watch event at relist, attempt %d", i)
		replay := map[string]interface{}{"scenario": what, "lists": lists}
		if dl != "" {
			replay["deadlock"] = dl
			c.Violation("", "the controller hangs (bubble deadlock): "+what, replay)
		}
		for _, p := range problems {
			if p == "second list came too early for the scenario" || p == "no second list" {
				c.Stat("stale_scenario_skipped", 1)
				continue
			}
			c.Violation("", p+" ["+what+"]", replay)
		}
		if len(chk.L) > 0 {
			c.Case(chk)
		}
		c.Stat("stale_buffer_runs", 1)
	}
	// a sustained flood of watch frames arriving faster than the controller
	// applies them (slow filter): list results keep being consumed (relisting
	// goes on) and Close() is served — the watch case never monopolises the loop
	for i := 0; i < 2; i++ {
		var problems []string
		what := "a sustained flood of watch frames against a slow controller (8 s, one frame per 10 ms, 20 ms per filter call)"
		c.Now(what)
		dl := sched.Bubble(c.T, func() {
			srv := fakeapi.New()
			srv.Set(1, 1, labSets[1], 1)
			var slow atomic.Bool
			ct := newCtlWith(srv, c.Seed+70+int64(i), i, 2*time.Second, filter.FN(func(metav1.Object) bool {
				if slow.Load() {
					time.Sleep(20 * time.Millisecond)
				}
				return true
			}))
			closed := false
			defer func() {
				slow.Store(false)
				ct.pert.SetLevel(0)
				if !closed {
					ct.c.Close()
				}
				sched.Settle()
			}()
			ct.pert.Barrier()
			slow.Store(true)
			stop := make(chan struct{})
			ended := make(chan struct{})
			go func() {
				defer close(ended)
				for k := 0; ; k++ {
					select {
					case <-stop:
						return
					default:
					}
					srv.Set(1+k%2, 1+k%3, labSets[k%3], 1)
					time.Sleep(10 * time.Millisecond)
				}
			}()
			l0, _ := srv.Calls()
			time.Sleep(8 * time.Second)
			l1, _ := srv.Calls()
			if got := len(l1) - len(l0); got < 2 {
				problems = append(problems, fmt.Sprintf("%d list calls were issued during 8 s of flood with a refresh period of 2 s: list results are no longer consumed", got))
			}
			// Close in the middle of the flood
			done := make(chan struct{})
			go func() { ct.c.Close(); close(done) }()
			time.Sleep(2 * time.Second)
			closed = isClosed(done)
			if !closed {
				problems = append(problems, "Close() has not returned 2 s after it was called in the middle of the flood")
			}
			close(stop)
			<-ended
			slow.Store(false)
			if !closed {
				time.Sleep(30 * time.Second)
				sched.Settle()
				closed = isClosed(done)
			}
		})
		runs++
		c.Rep.Evaluations++
		replay := map[string]interface{}{"scenario": what, "attempt": i}
		if dl != "" {
			replay["deadlock"] = dl
			c.Violation("", "hang (bubble deadlock): "+what, replay)
		}
		for _, p := range problems {
			c.Violation("", p+" ["+what+"]", replay)
		}
		c.DistinctCase(fmt.Sprint("flood", i))
	}
	// a list that the watch overtakes while it is in flight still repairs what
	// the watch had lost before it: the DELETED frame of x is lost; the next list
	// is asked (its answer will be the state of that moment) and, while it is
	// in flight, the watch reports a newer change; after the list has been
	// applied x is gone and the newer change is there
	for i := 0; i < 3; i++ {
		var problems []string
		what := "a lost DELETED frame, then a list overtaken by a newer watch event while in flight"
		c.Now(what)
		dl := sched.Bubble(c.T, func() {
			srv := fakeapi.New()
			srv.SnapshotAtStart = true
			srv.Set(1, 1, labSets[1], 1)
			x := srv.Set(1, 2, labSets[1], 1)
			ct := newCtlWith(srv, c.Seed+int64(i), i, 2*time.Second, nil)
			defer func() {
				ct.pert.SetLevel(0)
				ct.c.Close()
				sched.Settle()
			}()
			ct.pert.Barrier()
			if !isClosed(ct.c.Ready()) {
				problems = append(problems, "not ready")
				return
			}
			srv.ListLatency = func(int) time.Duration { return time.Second }
			srv.DropNext(1)
			srv.Delete(1, 2)
			ct.pert.Barrier()
			if got, _ := cacheIDs(ct.c.Cache()); !containsInt(got, x.ID) {
				problems = append(problems, "scenario premise: the DELETED frame was not lost")
				return
			}
			// wait for the next list to be asked
			for k := 0; k < 200; k++ {
				ls, _ := srv.Calls()
				if len(ls) >= 2 && ls[len(ls)-1].End.IsZero() && len(ls) > 1 {
					break
				}
				time.Sleep(25 * time.Millisecond)
			}
			ls, _ := srv.Calls()
			if len(ls) < 2 || !ls[len(ls)-1].End.IsZero() {
				problems = append(problems, "scenario premise: no list in flight")
				return
			}
			nb := srv.Set(2, 1, labSets[2], 1) // the watch overtakes the list
			time.Sleep(1500 * time.Millisecond)
			ct.pert.Barrier()
			got, _ := cacheIDs(ct.c.Cache())
			if containsInt(got, x.ID) {
				problems = append(problems, fmt.Sprintf("after the list was applied the cache %v still holds object %d, deleted before the list was asked (its DELETED frame had been lost): the list did not repair it", got, x.ID))
			}
			if !containsInt(got, nb.ID) {
				problems = append(problems, fmt.Sprintf("after the list was applied the cache %v lacks object %d, reported on the watch while the list was in flight", got, nb.ID))
			}
		})
		runs++
		c.Rep.Evaluations++
		replay := map[string]interface{}{"scenario": what, "variant": i}
		if dl != "" {
			replay["deadlock"] = dl
			c.Violation("", "hang (bubble deadlock): "+what, replay)
		}
		for _, p := range problems {
			c.Violation("", p+" ["+what+"]", replay)
		}
		c.DistinctCase(fmt.Sprint("overtaken-list", i))
	}
	// two builders configured side by side before either controller is created:
	// each controller lists and watches ITS server at ITS refresh period
	for i := 0; i < 2; i++ {
		var problems []string
		what := "two builders configured side by side, then both controllers created"
		c.Now(what)
		dl := sched.Bubble(c.T, func() {
			srvA, srvB := fakeapi.New(), fakeapi.New()
			srvA.Set(1, 1, labSets[1], 1)
			srvA.Set(1, 2, labSets[0], 1)
			srvB.Set(2, 1, labSets[2], 1)
			pert := sched.NewPerturb(c.Seed+int64(i), i)
			ctx, cancel := context.WithCancel(context.Background())
			defer cancel()
			bA := kcache.NewBuilder().Context(ctx).Log(pert.Log())
			bB := kcache.NewBuilder().Context(ctx).Log(pert.Log())
			bA.Lister().RefreshPeriod(2 * time.Second)
			bA = bA.Client(client.NewClient(srvA.List, srvA.Watch))
			bB = bB.Client(client.NewClient(srvB.List, srvB.Watch))
			if i == 1 {
				bB.Lister().RefreshPeriod(1000000 * time.Second)
			}
			cA, errA := bA.Create()
			cB, errB := bB.Create()
			if errA != nil || errB != nil {
				problems = append(problems, fmt.Sprintf("Create failed: %v %v", errA, errB))
				return
			}
			// the first builder used again with another client (the client given
			// last is the one a controller lists and watches), the second one with
			// a client given to the lister builder first and to the builder after
			srvC, srvD := fakeapi.New(), fakeapi.New()
			srvC.Set(2, 3, labSets[1], 1)
			srvD.Set(1, 3, labSets[2], 1)
			srvD.Set(2, 2, labSets[0], 1)
			bA = bA.Client(client.NewClient(srvC.List, srvC.Watch))
			cC, errC := bA.Create()
			bB.Lister().Client(client.NewClient(srvA.List, srvA.Watch))
			bB = bB.Client(client.NewClient(srvD.List, srvD.Watch))
			cD, errD := bB.Create()
			if errC != nil || errD != nil {
				problems = append(problems, fmt.Sprintf("Create on a builder used again failed: %v %v", errC, errD))
				return
			}
			// a third builder given its list client and its watch client separately
			// (Lister().Client / Watcher().Client), never a common one
			srvE := fakeapi.New()
			srvE.Set(2, 2, labSets[1], 1)
			bE := kcache.NewBuilder().Context(ctx).Log(pert.Log())
			bE.Lister().Client(client.NewListClient(srvE.List)).RefreshPeriod(1000000 * time.Second)
			bE.Watcher().Client(client.NewWatchClient(srvE.Watch))
			cE, errE := bE.Create()
			if errE != nil {
				problems = append(problems, fmt.Sprintf("Create with separate list and watch clients failed: %v", errE))
				return
			}
			defer func() { cE.Close() }()
			defer func() {
				pert.SetLevel(0)
				cA.Close()
				cB.Close()
				cC.Close()
				cD.Close()
				sched.Settle()
			}()
			time.Sleep(9 * time.Second)
			pert.Barrier()
			srvC.Set(1, 1, labSets[0], 1)
			srvD.Delete(1, 3)
			time.Sleep(100 * time.Millisecond)
			pert.Barrier()
			srvE.Set(1, 3, labSets[0], 1) // only the watch can deliver this: the refresh period is 10^6 s
			time.Sleep(100 * time.Millisecond)
			pert.Barrier()
			if gotE, _ := cacheIDs(cE.Cache()); !sameInts(gotE, objIDs(srvE.Objects())) {
				problems = append(problems, fmt.Sprintf("a controller built with separate list and watch clients holds %v, its server %v", gotE, objIDs(srvE.Objects())))
			}
			gotC, _ := cacheIDs(cC.Cache())
			gotD, _ := cacheIDs(cD.Cache())
			if want := objIDs(srvC.Objects()); !sameInts(gotC, want) {
				problems = append(problems, fmt.Sprintf("a controller created from a builder used again with another client holds %v, the server of that client %v", gotC, want))
			}
			if want := objIDs(srvD.Objects()); !sameInts(gotD, want) {
				problems = append(problems, fmt.Sprintf("a controller whose builder got a lister client first and a client for both afterwards holds %v, the server of the latter %v", gotD, want))
			}
			gotA, _ := cacheIDs(cA.Cache())
			gotB, _ := cacheIDs(cB.Cache())
			if want := objIDs(srvA.Objects()); !sameInts(gotA, want) {
				problems = append(problems, fmt.Sprintf("the first controller's cache holds %v, its server %v", gotA, want))
			}
			if want := objIDs(srvB.Objects()); !sameInts(gotB, want) {
				problems = append(problems, fmt.Sprintf("the second controller's cache holds %v, its server %v", gotB, want))
			}
			la, _ := srvA.Calls()
			lb, _ := srvB.Calls()
			// 9 s: period 2 s gives 4 or 5 lists; the default period (one minute) and 10^6 s give one
			if len(la) < 4 || len(la) > 6 {
				problems = append(problems, fmt.Sprintf("the controller built with a 2 s refresh period listed %d times in 9 s", len(la)))
			}
			if len(lb) != 1 {
				problems = append(problems, fmt.Sprintf("the controller built with the default / a very long refresh period listed %d times in 9 s", len(lb)))
			}
			// controllers created from one builder are independent: closing the
			// first leaves the second running and current, and the builder can
			// create a third one afterwards
			cA.Close()
			pert.Barrier()
			if isClosed(cC.Done()) {
				problems = append(problems, "closing a controller stopped another controller created from the same builder")
			} else {
				srvC.Set(2, 1, labSets[2], 1)
				time.Sleep(100 * time.Millisecond)
				pert.Barrier()
				if got, _ := cacheIDs(cC.Cache()); !sameInts(got, objIDs(srvC.Objects())) {
					problems = append(problems, fmt.Sprintf("after its sibling from the same builder was closed a controller holds %v, its server %v", got, objIDs(srvC.Objects())))
				}
			}
			cF, errF := bA.Create()
			if errF != nil {
				problems = append(problems, fmt.Sprintf("Create on a builder whose first controller was closed failed: %v", errF))
			} else {
				time.Sleep(200 * time.Millisecond)
				pert.Barrier()
				if !isClosed(cF.Ready()) || isClosed(cF.Done()) {
					problems = append(problems, fmt.Sprintf("a controller created from a builder whose first controller was closed: ready %v, done %v", isClosed(cF.Ready()), isClosed(cF.Done())))
				}
				cF.Close()
			}
		})
		runs++
		c.Rep.Evaluations++
		replay := map[string]interface{}{"scenario": what, "variant": i}
		if dl != "" {
			replay["deadlock"] = dl
			c.Violation("", "hang (bubble deadlock): "+what, replay)
		}
		for _, p := range problems {
			c.Violation("", p+" ["+what+"]", replay)
		}
		c.DistinctCase(fmt.Sprint("two-builders", i))
	}
	c.Rep.Rule = "whole controller against the fake API server in a synctest bubble (virtual time): seeded random server histories over 2 namespaces x 3 names in three phases (creates, label changes, deletes, objects entering graceful deletion: a deletionTimestamp, still listed); refresh periods {2s,7s}; list latency {0, 1/2, 3/2} period; controller filters {none, Labels, Not(NSName)}; watch behaviour {healthy, never connects, connect hangs until cancelled, closes after every 2 events, drops events, duplicates events, status/bookmark frames, mixed, replays old history (also on a quiet server, where the next list carries an unchanged resourceVersion), bursts of 220-320 changes against a slow controller (the session's and the watcher's buffers overflow and events are lost), lists that carry no collection resourceVersion}; 4 levels of logger-driven schedule perturbation. With the watch out of action: after every completed list cache = that list's accepted objects. After each phase: once a list that started after the server quiesced completes, cache = server's accepted objects, subscriber mirror = cache with well-formed strictly-newer events, no event before Ready, Close returns. Plus a targeted scenario: a watch event that the next list contradicts sits in the watcher's buffer while the controller is busy (slow filter) and the stream stalls; after that list cache = list. Plus a sustained flood of watch frames against a slow controller (8 s): relisting goes on and Close() is served. Plus two builders configured side by side before either controller is created: each controller follows its own server at its own refresh period. The converged cache is compared with the extracted model's relist_outcome. Non-trivial = run with >= 3 lists. Plus two controllers on ONE client.Client with both List calls in flight (held by the server), one of them closed / cancelled meanwhile, at the first list and at a relist: the other becomes (stays) ready, holds the server's content and goes on relisting. Every second fake server hands out an opaque collection resourceVersion (rv-<n>) and takes it back at Watch. Frame kinds now include ERROR frames whose payload is not a Status (undecodable, an API object, nothing). A LIST that names a resourceVersion is answered with the state AT that version (the library lists without one)."
	c.Rep.Stats["runs"] = runs
}

// ---------------------------------------------------------------------
// C14

func classifyErr(err error) int {
	switch {
	case err == nil:
		return 4
	case errors.Is(err, lifecycle.ErrRunning):
		return 0
	}
	// through either kind of wrapping (pkg/errors or %w)
	if errors.Is(err, context.Canceled) || errors.Is(err, context.DeadlineExceeded) {
		return 3
	}
	cause := pkgerrors.Cause(err)
	if cause != nil && (cause.Error() == "context canceled" || cause.Error() == "context deadline exceeded") {
		return 3
	}
	return 1
}

type failRun struct {
	busy     bool // the controller is busy (slow filter) while the failing list completes
	kind     fakeapi.ListKind
	k        int // the k-th list fails (0: none)
	watch    string
	trigger  string // "", "close", "cancel"
	deadlock string
	ready    bool
	done     bool
	err      error
	subsDone bool
	nsubs    int
	lists    int
}

func runFail(c *Ctx, r *failRun, seed int64, level int) {
	r.deadlock = sched.Bubble(c.T, func() {
		srv := fakeapi.New()
		srv.Set(1, 1, labSets[1], 1)
		srv.ListBehave = func(n int) fakeapi.ListKind {
			if n == r.k {
				return r.kind
			}
			return fakeapi.ListOK
		}
		nw := 0
		srv.WatchBehave = func(n int, rv string) string {
			nw++
			switch r.watch {
			case "errors":
				if n%2 == 1 {
					return fakeapi.ConnectError(n)
				}
			case "always-errors":
				return fakeapi.ConnectError(n)
			}
			return "ok"
		}
		var ff filter.Filter
		if r.busy {
			// applying list k-1 takes three periods: list k completes, and fails,
			// while the controller is still busy
			ff = filter.FN(func(o metav1.Object) bool {
				ls, _ := srv.Calls()
				if len(ls) == r.k-1 && len(ls) >= 1 && !ls[len(ls)-1].End.IsZero() {
					time.Sleep(6 * time.Second)
				}
				return true
			})
		}
		ct := newCtlWith(srv, seed, level, 2*time.Second, ff)
		defer func() {
			ct.c.Close()
			ct.pert.SetLevel(0)
			sched.Settle()
		}()
		// a small tree of subscribers
		var dones []<-chan struct{}
		if s, err := ct.c.Subscribe(); err == nil {
			dones = append(dones, s.Done())
		}
		if cl, err := ct.c.Clone(); err == nil {
			dones = append(dones, cl.Done())
			if s2, err := cl.SubscribeWithFilter((&Filt{Tag: FNull}).Go()); err == nil {
				dones = append(dones, s2.Done())
			}
		}
		if fc, err := ct.c.CloneForFilter(); err == nil {
			dones = append(dones, fc.Done())
		}
		if mon, err := kcache.NewMonitor(ct.c, kcache.BuildHandler().Create()); err == nil {
			dones = append(dones, mon.Done())
		}
		r.nsubs = len(dones)
		rounds := 5
		if r.busy {
			rounds = 12
		}
		for i := 0; i < rounds; i++ {
			time.Sleep(2300 * time.Millisecond)
			if r.watch == "closes" {
				srv.Set(1, 2, labSets[i%3], 1)
				srv.CloseStreams()
			}
			if r.watch == "frames" {
				applyStep(srv, wstep{Kind: 4}, new(int))
				applyStep(srv, wstep{Kind: 5}, new(int))
				applyStep(srv, wstep{Kind: 9}, new(int))
				applyStep(srv, wstep{Kind: 17}, new(int))
				applyStep(srv, wstep{Kind: 18}, new(int))
				applyStep(srv, wstep{Kind: 20}, new(int))
				// last, one of the frames that end the session (what follows it on
				// the same stream is never read): a different one each round
				applyStep(srv, wstep{Kind: []int{16, 19, 21}[i%3]}, new(int))
			}
			ct.pert.Barrier()
		}
		switch r.trigger {
		case "close":
			ct.c.Close()
		case "cancel":
			ct.cancel()
		}
		ct.pert.Barrier()
		r.ready = isClosed(ct.c.Ready())
		r.done = isClosed(ct.c.Done())
		r.err = ct.c.Error()
		r.subsDone = true
		for _, d := range dones {
			if !isClosed(d) {
				r.subsDone = false
			}
		}
		ls, _ := srv.Calls()
		r.lists = len(ls)
	})
}

func runC14(c *Ctx) {
	sharedClient(c, "C14")
	kinds := []fakeapi.ListKind{fakeapi.ListErr, fakeapi.ListNonList, fakeapi.ListNoItems, fakeapi.ListNonObjects, fakeapi.ListErrCanceled, fakeapi.ListErrTooMany, fakeapi.ListErrSrvTimeout, fakeapi.ListErrTimeout, fakeapi.ListErrNotFound, fakeapi.ListErrForbidden, fakeapi.ListErrGone}
	kindCode := map[fakeapi.ListKind]int{fakeapi.ListErr: 1, fakeapi.ListNonList: 2, fakeapi.ListNoItems: 3, fakeapi.ListNonObjects: 4, fakeapi.ListErrCanceled: 1, fakeapi.ListErrTooMany: 1, fakeapi.ListErrSrvTimeout: 1, fakeapi.ListErrTimeout: 1, fakeapi.ListErrNotFound: 1, fakeapi.ListErrForbidden: 1, fakeapi.ListErrGone: 1}
	runs := 0
	emit := func(r *failRun, what string) {
		runs++
		c.Rep.Evaluations++
		replay := map[string]interface{}{"scenario": what, "ready": r.ready, "done": r.done, "error": fmt.Sprint(r.err), "lists": r.lists}
		if r.deadlock != "" {
			replay["deadlock"] = r.deadlock
			c.Violation("", "hang (bubble deadlock): "+what, replay)
			return
		}
		// the model's inputs for this scenario
		var inputs []enc.T
		nl := r.lists
		if r.k > 0 && r.k < nl {
			nl = r.k
		}
		for i := 1; i <= nl; i++ {
			if i == r.k {
				inputs = append(inputs, enc.L(enc.I(0), enc.I(kindCode[r.kind])))
			} else {
				inputs = append(inputs, enc.L(enc.I(0), enc.I(0)))
			}
			if r.watch != "ok" {
				inputs = append(inputs, enc.L(enc.I(1)))
			}
		}
		switch r.trigger {
		case "close":
			inputs = append(inputs, enc.L(enc.I(2)))
		case "cancel":
			inputs = append(inputs, enc.L(enc.I(3)))
		}
		code := classifyErr(r.err)
		mcode := code
		if r.kind == fakeapi.ListErrCanceled && r.k > 0 && code == 3 {
			mcode = 1 // the List error happens to be context.Canceled: still a list failure
		}
		c.Case(enc.L(enc.I(7), enc.L(inputs...), enc.B(r.ready), enc.I(mcode)))
		// the property, directly
		if r.k > 0 {
			if !r.done {
				c.Violation("", "the controller keeps running after a failed list: "+what, replay)
			}
			if code != 1 && !(r.kind == fakeapi.ListErrCanceled && code == 3) {
				c.Violation("", fmt.Sprintf("Error() = %v does not report the list failure: %s", r.err, what), replay)
			}
			if r.kind == fakeapi.ListErr && pkgerrors.Cause(r.err) != fakeapi.ErrList && !errors.Is(r.err, fakeapi.ErrList) {
				c.Violation("", fmt.Sprintf("Error() = %v: its cause is not the error List returned: %s", r.err, what), replay)
			}
			if r.k == 1 && r.ready {
				c.Violation("", "Ready() closed although the first list failed: "+what, replay)
			}
			if !r.subsDone {
				c.Violation("", "a descendant is still running after the controller stopped on a list failure: "+what, replay)
			}
			c.DistinctCase(what)
		} else {
			switch r.trigger {
			case "":
				if r.done {
					c.Violation("", fmt.Sprintf("a watch failure terminated the controller (Error() = %v): %s", r.err, what), replay)
				}
				if !r.ready {
					c.Violation("", "not ready: "+what, replay)
				}
			case "close":
				if !r.done || r.err != nil {
					c.Violation("", fmt.Sprintf("a deliberately closed controller reports done=%v Error()=%v: %s", r.done, r.err, what), replay)
				}
				if !r.subsDone {
					c.Violation("", "a descendant is still running after Close(): "+what, replay)
				}
			case "cancel":
				if !r.done {
					c.Violation("", "context cancellation did not stop the controller: "+what, replay)
				}
			}
			c.DistinctCase(what)
		}
	}
	maxk := 3
	if !c.Quick() {
		maxk = 4
	}
	for _, kind := range kinds {
		for k := 1; k <= maxk; k++ {
			for _, w := range []string{"ok", "errors", "closes"} {
				if c.Quick() && (int(kind)+k+len(w))%2 == 0 {
					continue
				}
				r := &failRun{kind: kind, k: k, watch: w}
				c.Now(fmt.Sprintf("C14 scenario kind=%d k=%d watch=%s busy=%v", r.kind, r.k, r.watch, r.busy))
				runFail(c, r, c.Seed+int64(runs), runs%3)
				emit(r, fmt.Sprintf("list failure kind=%d at list %d, watch=%s", kind, k, w))
			}
		}
	}
	// the failing list completes while the controller is busy applying the
	// previous one: the failure must still be reported
	for k := 2; k <= maxk; k++ {
		for _, kind := range []fakeapi.ListKind{fakeapi.ListErr, fakeapi.ListNonObjects} {
			r := &failRun{kind: kind, k: k, watch: "ok", busy: true}
			c.Now(fmt.Sprintf("C14 scenario kind=%d k=%d watch=%s busy=%v", r.kind, r.k, r.watch, r.busy))
			runFail(c, r, c.Seed+int64(runs), 0)
			emit(r, fmt.Sprintf("list failure kind=%d at list %d while the controller is busy with list %d", kind, k, k-1))
		}
	}
	for _, w := range []string{"ok", "errors", "always-errors", "closes", "frames"} {
		for _, trig := range []string{"", "close", "cancel"} {
			r := &failRun{k: 0, watch: w, trigger: trig}
			c.Now(fmt.Sprintf("C14 scenario kind=%d k=%d watch=%s busy=%v", r.kind, r.k, r.watch, r.busy))
			runFail(c, r, c.Seed+int64(runs), runs%3)
			emit(r, fmt.Sprintf("no list failure, watch=%s, trigger=%q", w, trig))
			if runs == 30 {
				c.Sample(map[string]interface{}{"scenario": fmt.Sprintf("watch=%s trigger=%q", w, trig), "ready": r.ready, "done": r.done, "error": fmt.Sprint(r.err)})
			}
		}
	}
	// Close() before the controller ever became ready (its first list is still
	// held by the server, or it has not even started): a deliberate close like
	// any other — done, Error() nil, never ready
	for variant := 0; variant < 3; variant++ {
		what := fmt.Sprintf("Close() before the first list has returned (variant %d: 0 at once, 1 with the list in flight, 2 with the list in flight and released right after)", variant)
		c.Now(what)
		var done, ready bool
		var err error
		dl := sched.Bubble(c.T, func() {
			srv := fakeapi.New()
			srv.Set(1, 1, labSets[1], 1)
			release := srv.HoldLists()
			ct := newCtlWith(srv, c.Seed+int64(variant), 0, 2*time.Second, nil)
			if variant > 0 {
				sched.Settle()
			}
			ct.c.Close()
			if variant == 2 {
				release()
			}
			sched.Settle()
			if variant != 2 {
				release()
			}
			sched.Settle()
			done, ready, err = isClosed(ct.c.Done()), isClosed(ct.c.Ready()), ct.c.Error()
			ct.cancel()
			sched.Settle()
		})
		c.Rep.Evaluations++
		replay := map[string]interface{}{"scenario": what, "done": done, "ready": ready, "error": fmt.Sprint(err)}
		if dl != "" {
			replay["deadlock"] = dl
			c.Violation("", "hang (bubble deadlock): "+what, replay)
			continue
		}
		if !done {
			c.Violation("", "a controller closed before it was ready is not done: "+what, replay)
		}
		if err != nil {
			c.Violation("", fmt.Sprintf("a controller closed deliberately before it was ready reports Error() = %v: %s", err, what), replay)
		}
		if ready && variant != 2 { // (in variant 2 the list may return before the close is seen)
			c.Violation("", "Ready() closed on a controller that was closed before its first list returned: "+what, replay)
		}
		c.DistinctCase(fmt.Sprint("close-before-ready-", variant))
	}
	c.Rep.Rule = "whole controller (with a tree of a subscription, a clone with a filtered subscription, a for-filter clone and a monitor attached) against the fake API server in virtual time: every list failure kind {List error, context.Canceled as an error, Kubernetes Status errors 429 TooManyRequests / ServerTimeout / 504 Timeout / 404 NotFound / 403 Forbidden / 410 Gone, object that is not a list, list type without items, list of non-objects} injected at the k-th list (k=1..3/4) under {healthy watch, connect errors, stream closes}; and no list failure with every watch failure kind {connect errors, always failing, stream closes, status/bookmark/unknown frames} with triggers {none, Close, context cancel}. Observed: Ready, Done, Error (cause by identity), descendants' Done; compared with the extracted controller model (krun) on the same input sequence. Non-trivial = every scenario (each has a distinct expected outcome); distinct by scenario. Plus two controllers on ONE client.Client with both List calls in flight (held by the server), one of them closed / cancelled meanwhile, at the first list and at a relist: the other becomes (stays) ready, holds the server's content and goes on relisting. Every second fake server hands out an opaque collection resourceVersion (rv-<n>) and takes it back at Watch. The frames mode injects per round the skipped frames (status, bookmark, unknown type, expired / detailed status, an ERROR frame carrying an API object) and then ONE session-ending frame (non-object ADDED payload / ERROR with an undecodable payload / ERROR with no payload), a different one each round. Plus Close() before the first list has returned (at once / list in flight / list released right after): done, Error() nil, not ready."
	c.Rep.Stats["runs"] = runs
	c.Sample(map[string]interface{}{"scenario": "list error at list 2", "expected": "Done closed, Error cause = injected error, ready stays true, subtree done"})
}

// staleBufferRun: a watch event that the next list contradicts sits in the
// watcher's output channel when the controller applies that list (the
// controller is kept busy by a filter that takes virtual time).  After the
// list the cache must equal the list: what predates a list must not be
// applied after it.
func staleBufferRun(c *Ctx, seed int64, variant int) (problems []string, deadlock string, check enc.T, lists int) {
	deadlock = sched.Bubble(c.T, func() {
		srv := fakeapi.New()
		srv.Set(1, 1, labSets[1], 1)
		slow := false
		gate := make(chan struct{})
		f := filter.FN(func(o metav1.Object) bool {
			if slow && o.GetName() == Str(3) {
				// the controller stays busy here until the second list has completed
				select {
				case <-gate:
				case <-time.After(3 * time.Second):
				}
			}
			return true
		})
		period := 4 * time.Second
		ct := newCtlWith(srv, seed, 0, period, f)
		defer func() {
			ct.c.Close()
			sched.Settle()
		}()
		sched.Settle()
		if !isClosed(ct.c.Ready()) {
			problems = append(problems, "not ready")
			return
		}
		// wait until shortly before the second list starts
		for {
			ls, _ := srv.Calls()
			if len(ls) >= 2 {
				problems = append(problems, "second list came too early for the scenario")
				return
			}
			time.Sleep(50 * time.Millisecond)
			sched.Settle()
			if time.Since(ls[0].End) > period*8/10 {
				break
			}
		}
		slow = true
		srv.ListLatency = func(int) time.Duration { return 0 }
		// keep the controller busy with an object whose filter call takes time
		srv.Set(1, 3, labSets[0], 1)
		time.Sleep(time.Millisecond)
		// x appears (its event reaches the watcher's buffer) ...
		srv.Set(2, 2, labSets[1], 1)
		time.Sleep(time.Millisecond)
		// ... the stream stalls, and x disappears before the next list
		srv.Pause()
		srv.Delete(2, 2)
		if variant == 1 {
			srv.Set(1, 1, labSets[2], 1)
		}
		// the second list completes while the controller is still busy
		deadline := time.Now().Add(2 * period)
		for time.Now().Before(deadline) {
			time.Sleep(20 * time.Millisecond)
			ls, _ := srv.Calls()
			if len(ls) >= 2 && !ls[1].End.IsZero() {
				break
			}
		}
		slow = false
		sched.Settle() // the list result is now waiting for the controller, next to the buffered event
		close(gate)
		time.Sleep(600 * time.Millisecond)
		sched.Settle()
		ls, _ := srv.Calls()
		lists = len(ls)
		if len(ls) < 2 || ls[1].End.IsZero() {
			problems = append(problems, "no second list")
			return
		}
		got, _ := cacheIDs(ct.c.Cache())
		want := objIDs(srv.ObjectsAt(ls[1].Version))
		if len(ls) == 2 && !sameInts(got, want) {
			problems = append(problems, fmt.Sprintf("after list 2 completed (stream stalled since before it): cache %v differs from that list %v: a watch event that predates the list was applied after it", got, want))
		}
		check = enc.L(enc.I(6), enc.L(enc.I(0)), EncObjs(srv.ObjectsAt(ls[1].Version)), enc.Ints(got))
	})
	return
}

func containsInt(l []int, x int) bool {
	for _, y := range l {
		if y == x {
			return true
		}
	}
	return false
}

// sharedClient: two independent root controllers built on ONE client.Client
// (what every typed NewController does with a clientset), their List calls
// in flight at the same time (the server holds them), and one of the two
// closed / cancelled meanwhile.  The other has nothing to do with it: it
// becomes ready (keeps running), holds its server's content and goes on
// relisting; the closed one is done with the error of a deliberate close.
// Variants: the overlap is at the first list / at a relist; Close / cancel.
func sharedClient(c *Ctx, pid string) {
	for variant := 0; variant < 4; variant++ {
		atRelist, byCancel := variant%2 == 1, variant/2 == 1
		what := fmt.Sprintf("two controllers on one client.Client, both List calls in flight, one controller closed meanwhile (at a relist: %v, by context cancel: %v)", atRelist, byCancel)
		c.Now(what)
		var problems []string
		dl := sched.Bubble(c.T, func() {
			srv := fakeapi.New()
			srv.Set(1, 1, labSets[1], 1)
			srv.Set(1, 2, labSets[0], 1)
			cl := client.NewClient(srv.List, srv.Watch)
			pert := sched.NewPerturb(c.Seed+int64(variant), 0)
			mk := func() (kcache.Controller, context.CancelFunc) {
				ctx, cancel := context.WithCancel(context.Background())
				b := kcache.NewBuilder().Context(ctx).Log(pert.Log()).Client(cl)
				b.Lister().RefreshPeriod(3 * time.Second)
				ct, err := b.Create()
				if err != nil {
					problems = append(problems, "Create failed: "+err.Error())
					cancel()
					return nil, nil
				}
				return ct, cancel
			}
			var release func()
			if !atRelist {
				release = srv.HoldLists()
			}
			a, cancelA := mk()
			b, cancelB := mk()
			if a == nil || b == nil {
				return
			}
			defer func() {
				cancelA()
				cancelB()
				sched.Settle()
			}()
			sched.Settle()
			if atRelist {
				if !isClosed(a.Ready()) || !isClosed(b.Ready()) {
					problems = append(problems, "not ready after the first lists")
					return
				}
				release = srv.HoldLists()
				srv.Set(2, 1, labSets[2], 1)
				time.Sleep(3500 * time.Millisecond) // both are relisting now, held by the server
				sched.Settle()
			}
			lists, _ := srv.Calls()
			open := 0
			for _, l := range lists {
				if l.End.IsZero() {
					open++
				}
			}
			if open == 0 {
				// (a client that answers overlapping calls with one request has one)
				problems = append(problems, "harness: no List call in flight at the moment of the close")
				release()
				return
			}
			if byCancel {
				cancelA()
			} else {
				a.Close()
			}
			sched.Settle()
			release()
			sched.Settle()
			time.Sleep(100 * time.Millisecond)
			sched.Settle()
			if !isClosed(a.Done()) {
				problems = append(problems, "the closed controller is not done")
			}
			if isClosed(b.Done()) {
				problems = append(problems, fmt.Sprintf("closing one controller stopped another controller on the same client (Error() = %v)", b.Error()))
				return
			}
			if !isClosed(b.Ready()) {
				problems = append(problems, "the other controller on the same client is not ready after its list returned")
				return
			}
			if got, _ := cacheIDs(b.Cache()); !sameInts(got, objIDs(srv.Objects())) {
				problems = append(problems, fmt.Sprintf("the other controller holds %v, the server %v", got, objIDs(srv.Objects())))
			}
			// and it goes on relisting
			before, _ := srv.Calls()
			time.Sleep(7 * time.Second)
			sched.Settle()
			after, _ := srv.Calls()
			if len(after)-len(before) < 2 {
				problems = append(problems, fmt.Sprintf("the other controller listed %d times in the 7 s that followed (period 3 s)", len(after)-len(before)))
			}
		})
		c.Rep.Evaluations++
		replay := map[string]interface{}{"scenario": what}
		if dl != "" {
			replay["deadlock"] = dl
			c.Violation("", "hang (bubble deadlock): "+what, replay)
		}
		for _, p := range problems {
			c.Violation("", p+" ["+what+"]", replay)
		}
		c.DistinctCase(fmt.Sprint("shared-client", variant))
	}
}
