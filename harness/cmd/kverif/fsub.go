package main

import (
	"fmt"
	goruntime "runtime"
	"sync/atomic"
	"time"

	"verifharness/enc"
	"verifharness/fakeapi"
	. "verifharness/kobj"
	"verifharness/sched"

	"github.com/boz/kcache"
	"github.com/boz/kcache/filter"
	metav1 "k8s.io/apimachinery/pkg/apis/meta/v1"
)

func init() {
	commands["C06"] = runC06
	commands["C07"] = runC07
	commands["C08"] = runC08
}

// fop is one step of a filtered-subscription scenario.
type fop struct {
	kind int   // 0 parent becomes ready, 1 Refilter(f), 2 server mutation (parent event)
	f    *Filt // Refilter
	ns, nm, lab int
	del  bool
}

func (o fop) String() string {
	switch o.kind {
	case 0:
		return "parent-ready"
	case 1:
		return "Refilter" + o.f.Enc().String()
	}
	if o.del {
		return fmt.Sprintf("delete(%d,%d)", o.ns, o.nm)
	}
	return fmt.Sprintf("set(%d,%d,%d)", o.ns, o.nm, o.lab)
}

// fsubRun: node X of the given kind below parent P.  When gated, P is a
// for-filter clone whose readiness the scenario controls (op 0 = P.Refilter(Null));
// otherwise P is the (ready) root and op 0 happens at creation.
type fsubRun struct {
	seed      int64
	level     int
	kind      int // nFSub nDSub nFClone nDClone
	init      *Filt
	gated     bool
	spacers   int // plain clones between the root and P
	ops       []fop
	initial   []fop // server content before anything else
	zeroVer   bool  // the first object carries resource version 0
	deadlock  string
	problems  []string
	modelOps  []enc.T
	events    int
}

var objByID = map[int]*Obj{}

func rememberLog(srv *fakeapi.Server) {
	for _, e := range srv.Log() {
		objByID[e.Obj.ID] = e.Obj
	}
}

func objsOfIDs(ids []int) []*Obj {
	r := make([]*Obj, 0, len(ids))
	for _, id := range ids {
		if o, ok := objByID[id]; ok {
			r = append(r, o)
		}
	}
	return r
}

func runFsub(c *Ctx, r *fsubRun) {
	r.deadlock = sched.Bubble(c.T, func() {
		srv := fakeapi.New()
		if r.zeroVer {
			srv.StartVersion(0)
		}
		if !r.zeroVer {
			for _, o := range r.initial {
				srv.Set(o.ns, o.nm, labSets[o.lab], 1)
			}
		}
		ct := newCtlWith(srv, r.seed, r.level, 1000000*time.Second, nil)
		var t *tree
		defer func() {
			ct.pert.SetLevel(0)
			ct.c.Close()
			sched.Settle()
			if t != nil {
				for _, n := range t.nodes {
					if n.readerEnd != nil {
						<-n.readerEnd
					}
				}
			}
		}()
		ct.pert.Barrier()
		if r.zeroVer {
			// the content arrives through the watch (the first object at resource
			// version 0) before the node under test exists
			for _, o := range r.initial {
				srv.Set(o.ns, o.nm, labSets[o.lab], 1)
			}
			ct.pert.Barrier()
		}
		t = newTree(ct, nil)
		parent := t.root
		for i := 0; i < r.spacers; i++ {
			parent, _ = t.add(parent, nClone, nil)
		}
		if r.gated {
			parent, _ = t.add(parent, nDClone, nil)
		}
		pref, _ := t.add(parent, nSub, nil) // what P publishes
		x, err := t.add(parent, r.kind, r.init)
		if err != nil {
			r.problems = append(r.problems, "creating the node failed: "+err.Error())
			return
		}
		obs := x
		if x.isPublisher() {
			obs, _ = t.add(x, nSub, nil)
		}
		ct.pert.Barrier()
		seenEv, seenP := 0, 0
		parentReady := !r.gated
		curFilt := r.init
		if x.isDeferred() {
			curFilt = nil
		}
		observe := func(op enc.T, what string) {
			rememberLog(srv)
			ready := isClosed(x.ready())
			var ids []int
			if ready {
				ids, _ = cacheIDs(x.cache())
			}
			evs := obs.received()
			newEvs := evs[seenEv:]
			seenEv = len(evs)
			r.events += len(newEvs)
			for _, e := range newEvs {
				if !e.readyThen {
					r.problems = append(r.problems, fmt.Sprintf("%s: an event was delivered on Events() before Ready() closed", what))
				}
			}
			r.modelOps = append(r.modelOps, enc.L(op, enc.L(enc.B(ready), enc.Ints(ids), encRecv(newEvs))))
			// direct oracles (C08): ready only with parent ready and a filter, and then synced
			wantReady := parentReady && (!x.isDeferred() || x.hasFilt)
			if ready && !wantReady {
				r.problems = append(r.problems, fmt.Sprintf("%s: Ready() closed although %s", what, map[bool]string{true: "no filter has been supplied", false: "the parent is not ready"}[parentReady]))
			}
			if !ready && wantReady {
				r.problems = append(r.problems, fmt.Sprintf("%s: Ready() still open although the parent is ready and a filter is set", what))
			}
			// the gated parent is itself a for-filter clone given filter.Null():
			// once ready its cache is the whole server content
			if r.gated && parentReady {
				pids, _ := cacheIDs(parent.cache())
				if !isClosed(parent.ready()) {
					r.problems = append(r.problems, what+": the for-filter parent is not ready after Refilter although its own parent is ready")
				} else if !sameInts(pids, objIDs(srv.Objects())) {
					r.problems = append(r.problems, fmt.Sprintf("%s: the for-filter parent (filter Null) is ready and its cache holds %v, the server content is %v", what, pids, objIDs(srv.Objects())))
				}
			}
			if ready {
				pl, _ := cacheIDs(parent.cache())
				var want []*Obj
				for _, o := range objsOfIDs(pl) {
					if curFilt != nil && curFilt.Go().Accept(o.Go()) {
						want = append(want, o)
					}
				}
				if !sameInts(ids, objIDs(want)) {
					r.problems = append(r.problems, fmt.Sprintf("%s: Ready() is closed and the cache holds %v, the filtered parent content is %v", what, ids, objIDs(want)))
				}
			}
		}
		parentList := func() enc.T {
			rememberLog(srv)
			if !isClosed(parent.ready()) {
				return enc.L()
			}
			pl, _ := cacheIDs(parent.cache())
			return EncObjs(objsOfIDs(pl))
		}
		if !r.gated {
			observe(enc.L(enc.I(0), parentList()), "after creation (parent ready)")
		}
		for i, op := range r.ops {
			what := fmt.Sprintf("after op %d %s", i, op)
			switch op.kind {
			case 0:
				if parentReady {
					continue
				}
				t.refilter(parent, &Filt{Tag: FNull})
				parentReady = true
				ct.pert.Barrier()
				seenP = len(pref.received())
				observe(enc.L(enc.I(0), parentList()), what)
			case 1:
				if err := t.refilter(x, op.f); err != nil {
					r.problems = append(r.problems, what+": Refilter failed: "+err.Error())
					return
				}
				curFilt = op.f
				ct.pert.Barrier()
				observe(enc.L(enc.I(1), op.f.Enc(), parentList()), what)
			case 2:
				if op.del {
					srv.Delete(op.ns, op.nm)
				} else {
					srv.Set(op.ns, op.nm, labSets[op.lab], 1)
				}
				ct.pert.Barrier()
				rememberLog(srv)
				pevs := pref.received()
				newP := pevs[seenP:]
				seenP = len(pevs)
				if len(newP) == 0 {
					// the parent published nothing (not ready, or no change): the node sees nothing
					observe(enc.L(enc.I(3)), what+" (no parent event)")
					continue
				}
				for _, pe := range newP {
					observe(enc.L(enc.I(2), enc.I(pe.ty), objByID[pe.id].Enc()), what)
				}
			}
		}
	})
}

// a Refilter to the current filter is a no-op in the model; used to observe a
// step at which the node received nothing
func curFiltOrAll(f *Filt, x *node) *Filt {
	if f == nil {
		return &Filt{Tag: FAll}
	}
	return f
}

func fsubReport(c *Ctx, r *fsubRun, what string) {
	c.Rep.Evaluations++
	replay := map[string]interface{}{"scenario": what, "seed": r.seed, "kind": kindNames[r.kind], "gated_parent": r.gated, "spacers": r.spacers, "ops": fmt.Sprint(r.ops), "initial": fmt.Sprint(r.initial)}
	if r.init != nil {
		replay["initial_filter"] = r.init.Enc().String()
	}
	if r.deadlock != "" {
		replay["deadlock"] = r.deadlock
		c.Violation("", "hang (bubble deadlock): "+what, replay)
	}
	for _, p := range r.problems {
		c.Violation("", p+" ["+what+"]", replay)
	}
	ft := enc.L(enc.I(16))
	if r.init != nil {
		ft = r.init.Enc()
	}
	deferred := r.kind == nDSub || r.kind == nDClone
	c.Out.WriteString("# " + what + " ops=" + fmt.Sprint(r.ops) + "\n")
	c.Case(enc.L(enc.I(10), enc.B(deferred), ft, enc.L(r.modelOps...)))
}

func filterFamily() []*Filt {
	l11 := &Filt{Tag: FLabels, Map: Map{{1, 1}}}
	l12 := &Filt{Tag: FLabels, Map: Map{{1, 2}}}
	return []*Filt{
		{Tag: FNull},
		{Tag: FAll},
		l11,
		l12,
		not(l11),
		or(l11, l12),
		fn(l11),
		fn(l12), // a second function filter from the same function literal, capturing something else
	}
}

// a fresh, structurally identical term ("built twice")
func rebuild(f *Filt) *Filt {
	g := *f
	g.Children = nil
	for _, ch := range f.Children {
		g.Children = append(g.Children, rebuild(ch))
	}
	g.Map = append(Map(nil), f.Map...)
	return &g
}

// ---------------------------------------------------------------------
// C07: exhaustive filter pairs / triples x parent contents

func runC07(c *Ctx) {
	bigBatches(c, "C07")
	refilterHop(c)
	equalRefilterRace(c, "C07")
	fam := filterFamily()
	// two conjunctions that differ only in a non-comparable (FN) child: never equal
	fam = append(fam, and(fn(fam[2]), fam[5]), and(fn(fam[3]), rebuild(fam[5])))
	// parent contents over 2 keys x {absent, no label, {1:1}, {1:2}}
	var contents [][]fop
	for a := 0; a < 4; a++ {
		for b := 0; b < 4; b++ {
			var cont []fop
			if a > 0 {
				cont = append(cont, fop{kind: 2, ns: 1, nm: 1, lab: a - 1})
			}
			if b > 0 {
				cont = append(cont, fop{kind: 2, ns: 1, nm: 2, lab: b - 1})
			}
			contents = append(contents, cont)
		}
	}
	runs := 0
	for i1, f1 := range fam {
		for i2, f2 := range fam {
			for ci, cont := range contents {
				if c.Quick() && (i1+i2+ci)%4 != 0 {
					continue
				}
				// third filter: back to the first, or another member
				f3 := rebuild(f1)
				if (i1+i2+ci)%3 == 0 {
					f3 = fam[(i1+i2+1)%len(fam)]
				}
				kind := []int{nFSub, nFClone}[(i1+ci)%2]
				r := &fsubRun{seed: c.Seed + int64(runs), kind: kind, init: f1, initial: cont, zeroVer: (i1+2*i2+ci)%3 == 0,
					ops: []fop{{kind: 1, f: rebuild(f2)}, {kind: 1, f: f3}, {kind: 1, f: rebuild(f3)}}}
				if (i1+i2+ci)%2 == 0 {
					// the parent changes after a Refilter too: whatever the Refilter did or
					// did not emit, it is the NEW filter that judges what comes afterwards
					// (both keys go through every label, then one disappears)
					r.ops = []fop{{kind: 1, f: rebuild(f2)},
						{kind: 2, ns: 1, nm: 1, lab: 1}, {kind: 2, ns: 1, nm: 2, lab: 2}, {kind: 2, ns: 1, nm: 1, lab: 2}, {kind: 2, ns: 1, nm: 2, lab: 1},
						{kind: 1, f: f3}, {kind: 2, ns: 1, nm: 1, lab: 0}, {kind: 2, ns: 1, nm: 2, del: true}, {kind: 2, ns: 1, nm: 2, lab: 2}, {kind: 1, f: rebuild(f3)}}
				}
				runFsub(c, r)
				runs++
				what := fmt.Sprintf("filters %d -> %d -> %d, parent content %d", i1, i2, (i1+i2+1)%len(fam), ci)
				fsubReport(c, r, what)
				if r.events > 0 {
					c.DistinctCase(what)
				}
				if runs == 7 {
					c.Sample(map[string]interface{}{"scenario": what, "initial_filter": f1.Enc().String(), "refilter_to": f2.Enc().String(), "parent_content": fmt.Sprint(cont)})
				}
			}
		}
	}
	// for-filter nodes (the joins' building block): first filter, another, back
	// to the constructor's accept-none filter, and on
	for i1, f1 := range fam {
		for i2, f2 := range fam {
			if c.Quick() && (i1+i2)%2 != 0 {
				continue
			}
			kind := []int{nDSub, nDClone}[(i1+i2)%2]
			r := &fsubRun{seed: c.Seed + int64(runs), kind: kind, initial: contents[(3*i1+5*i2+7)%len(contents)],
				ops: []fop{{kind: 1, f: rebuild(f1)}, {kind: 1, f: rebuild(f2)}, {kind: 1, f: &Filt{Tag: FAll}}, {kind: 1, f: rebuild(f1)}}}
			if i1%2 == 0 {
				// straight back to the accept-none filter after the first one
				r.ops = []fop{{kind: 1, f: rebuild(f1)}, {kind: 1, f: &Filt{Tag: FAll}}, {kind: 1, f: rebuild(f2)}, {kind: 1, f: rebuild(f1)}}
			}
			runFsub(c, r)
			runs++
			what := fmt.Sprintf("for-filter node: filters %d, %d, accept-none, %d", i1, i2, i1)
			fsubReport(c, r, what)
			if r.events > 0 {
				c.DistinctCase(what)
			}
		}
	}
	// a Refilter issued before the parent is ready, then back to the constructor's filter
	for i0, f0 := range fam {
		for i1, f1 := range fam {
			if i0 == i1 || (c.Quick() && (i0+i1)%2 != 0) {
				continue
			}
			kind := []int{nFSub, nFClone}[(i0+i1)%2]
			r := &fsubRun{seed: c.Seed + int64(runs), kind: kind, init: f0, gated: true, initial: contents[(3*i0+5*i1+11)%len(contents)],
				ops: []fop{{kind: 1, f: rebuild(f1)}, {kind: 0}, {kind: 1, f: rebuild(f0)}, {kind: 1, f: rebuild(f1)}}}
			runFsub(c, r)
			runs++
			what := fmt.Sprintf("Refilter(%d) before the parent is ready, then back to the constructor's filter %d", i1, i0)
			fsubReport(c, r, what)
			if r.events > 0 {
				c.DistinctCase(what)
			}
		}
	}
	c.Rep.Rule = "ready filtered subscriptions / filtered clones below a real (ready, quiet) controller through the public API with barriers: every ordered pair of a 9-member filter family (accept-all, accept-none, two overlapping label filters, a negation, a disjunction, a non-comparable FN, two conjunctions differing only in an FN child), each rebuilt so that Equals is exercised on distinct values, then a third Refilter (back to the first filter or another member) and a repeated one, in every second triple with parent changes after each Refilter (both keys through every label, a delete, a re-create); x all parent contents over 2 keys x {absent, unlabelled, label a, label b} (quick: a quarter of the triples; in a third of them the first object carries resource version 0). Plus: for-filter nodes taken through first filter / another / back to accept-none / first again, and immediate nodes refiltered before their (gated) parent is ready and then back to the constructor's filter. Per Refilter: events delivered between barriers and cache vs the extracted fs_step model (Delete exactly for cached objects the new filter rejects, Create exactly for parent objects newly accepted, nothing for an equal filter), Ready, filtered parent content. Non-trivial = scenario in which some Refilter emitted events."
	c.Rep.Stats["runs"] = runs
}

// ---------------------------------------------------------------------
// C08: all orders of {parent ready, Refilter(equal), Refilter(new), parent event}

func runC08(c *Ctx) {
	parentCacheStopped(c, "C08")
	subscribeUnderFlood(c)
	maxLen := 4
	if !c.Quick() {
		maxLen = 6
	}
	fam := filterFamily()
	lab := fam[2]
	kinds := []int{nFSub, nDSub, nFClone, nDClone}
	runs := 0
	var seqs [][]int
	var gen func(cur []int, hasPR bool)
	gen = func(cur []int, hasPR bool) {
		if len(cur) > 0 {
			seqs = append(seqs, append([]int{}, cur...))
		}
		if len(cur) == maxLen {
			return
		}
		for op := 0; op < 4; op++ {
			if op == 0 && hasPR {
				continue
			}
			gen(append(cur, op), hasPR || op == 0)
		}
	}
	gen(nil, false)
	for si, seq := range seqs {
		if c.Quick() && len(seq) == 4 && si%3 != 0 {
			continue
		}
		if !c.Quick() && len(seq) == 6 && si%4 != 0 {
			continue
		}
		kind := kinds[si%4]
		spacers := (si / 4) % 3
		var init *Filt
		if kind == nFSub || kind == nFClone {
			init = []*Filt{lab, fam[0], fam[4]}[si%3]
		}
		cur := init
		var ops []fop
		nnew := 0
		for j, o := range seq {
			switch o {
			case 0:
				ops = append(ops, fop{kind: 0})
			case 1: // Refilter(equal): the current filter, rebuilt
				f := cur
				if f == nil {
					f = &Filt{Tag: FAll}
				}
				ops = append(ops, fop{kind: 1, f: rebuild(f)})
				if cur == nil {
					cur = f
				}
			case 2: // Refilter(new)
				nnew++
				f := fam[(si+nnew*2)%len(fam)]
				if cur != nil && f.Enc().String() == cur.Enc().String() {
					f = fam[(si+nnew*2+1)%len(fam)]
				}
				ops = append(ops, fop{kind: 1, f: rebuild(f)})
				cur = f
			case 3:
				ops = append(ops, fop{kind: 2, ns: 1, nm: 1 + (j+si)%2, lab: (j + si) % 3, del: (j+si)%5 == 4})
			}
		}
		r := &fsubRun{seed: c.Seed + int64(runs), level: 0, kind: kind, init: init, gated: true, spacers: spacers, ops: ops,
			initial: []fop{{kind: 2, ns: 1, nm: 1, lab: 1}, {kind: 2, ns: 1, nm: 2, lab: 0}}}
		runFsub(c, r)
		runs++
		what := fmt.Sprintf("%s below a for-filter clone at depth %d, order %v", kindNames[kind], spacers+2, seq)
		fsubReport(c, r, what)
		c.DistinctCase(what)
		if runs == 11 {
			c.Sample(map[string]interface{}{"scenario": what, "ops": fmt.Sprint(ops)})
		}
	}
	// for-filter nodes: every member of the filter family as the FIRST filter
	// supplied, before and after the parent becomes ready
	for fi, f := range fam {
		for _, kind := range []int{nDSub, nDClone} {
			for order := 0; order < 2; order++ {
				ops := []fop{{kind: 0}, {kind: 1, f: rebuild(f)}}
				if order == 1 {
					ops = []fop{{kind: 1, f: rebuild(f)}, {kind: 0}}
				}
				ops = append(ops, fop{kind: 2, ns: 2, nm: 3, lab: 1}, fop{kind: 1, f: rebuild(fam[(fi+2)%len(fam)])}, fop{kind: 1, f: &Filt{Tag: FAll}}, fop{kind: 1, f: rebuild(f)})
				r := &fsubRun{seed: c.Seed + int64(runs), kind: kind, gated: true, spacers: fi % 2, ops: ops,
					initial: []fop{{kind: 2, ns: 1, nm: 1, lab: 1}, {kind: 2, ns: 1, nm: 2, lab: 0}}}
				runFsub(c, r)
				runs++
				what := fmt.Sprintf("%s: first filter = family member %d, %s the parent is ready", kindNames[kind], fi, []string{"after", "before"}[order])
				fsubReport(c, r, what)
				c.DistinctCase(what)
			}
		}
	}
	// the controller itself: a failed first list never makes anything ready
	for _, kind := range []fakeapi.ListKind{fakeapi.ListErr, fakeapi.ListNonObjects} {
		var problems []string
		dl := sched.Bubble(c.T, func() {
			srv := fakeapi.New()
			srv.Set(1, 1, labSets[1], 1)
			srv.ListBehave = func(n int) fakeapi.ListKind {
				if n == 1 {
					return kind
				}
				return fakeapi.ListOK
			}
			ct := newCtlWith(srv, c.Seed, 0, 2*time.Second, nil)
			t := newTree(ct, nil)
			a, _ := t.add(t.root, nFSub, lab)
			b, _ := t.add(t.root, nDClone, nil)
			if b != nil {
				t.refilter(b, lab)
			}
			time.Sleep(10 * time.Second)
			ct.pert.Barrier()
			for _, nd := range []*node{t.root, a, b} {
				if nd != nil && isClosed(nd.ready()) {
					problems = append(problems, nd.name()+": Ready() closed although the first list failed")
				}
			}
			ct.c.Close()
			sched.Settle()
			for _, n := range t.nodes {
				if n.readerEnd != nil {
					<-n.readerEnd
				}
			}
		})
		runs++
		c.Rep.Evaluations++
		if dl != "" {
			c.Violation("", "hang after a failed first list", map[string]interface{}{"deadlock": dl})
		}
		for _, p := range problems {
			c.Violation("", p, map[string]interface{}{"list_failure_kind": int(kind)})
		}
	}
	c.Rep.Rule = "a node of each kind {SubscribeWithFilter, SubscribeForFilter, CloneWithFilter, CloneForFilter} below a for-filter clone (whose readiness the scenario controls) at depth 2..4 of a clone tree on a real controller: every order of {parent becomes ready, Refilter(equal filter, rebuilt), Refilter(new filter), parent event} up to length 4 (quick: all of length <= 3, a third of length 4) / 6, with a barrier after every operation. After each operation: Ready(), cache when ready, events delivered vs the extracted fs_step model; direct oracles: Ready only with parent ready and (deferred) a filter supplied, cache read once Ready is seen = filtered parent content, no event before Ready; plus: a failed first list never makes the controller, a filtered subscription or a for-filter clone ready. Non-trivial = every order (each is a distinct history). Plus the window in which the parent's cache has stopped and its Events() is still open (context cancelled while the controller goroutine is held at a log call): a Refilter(accept-all) there may not produce a Delete (C06); with the controller held at its n-th start-up log call (n=1..6), cancelled, and held again at its next one, a node that says Ready and whose cache can be read holds its filter's view of the server (C06, C08). Plus 200 (1500) filtered subscriptions and filtered clones created back to back on a ready controller while one accepted object is updated continuously (real parallelism, no barriers): no event is received from a node whose Ready() is open, and no Create for the object that was there all along."
	c.Rep.Stats["runs"] = runs
	c.Rep.Stats["orders"] = len(seqs)
}

// ---------------------------------------------------------------------
// C06: filtered trees under racing Refilter / events, checked at barriers

func runC06(c *Ctx) {
	parentCacheStopped(c, "C06")
	closeWithBacklog(c)
	equalRefilterRace(c, "C06")
	n := 30
	if !c.Quick() {
		n = 4000
	}
	fam := filterFamily()
	runs := 0
	for i := 0; i < n; i++ {
		seed := c.Seed*1000 + int64(i)
		level := 1 + i%3
		var problems []string
		var cases []enc.T
		var sample map[string]interface{}
		checks := 0
		replays := i%5 == 4 // the watch also replays stretches of old history and isolated stale frames
		dl := treeBubble(c, seed, level, nil, func(t *tree, srv *fakeapi.Server) {
			type ckpt struct {
				seed map[[2]string][2]int
				idx  int
			}
			cps := map[*node]*ckpt{}
			verify := func(stage string) {
				t.ct.pert.Barrier()
				rememberLog(srv)
				objs := srv.Objects()
				if replays {
					// the watch replayed old history (no relist in these runs): the
					// ground truth is what the root controller's cache holds
					objs = nil
					rl, _ := t.ct.c.Cache().List()
					for _, o := range rl {
						if ob, ok := objByID[ID(o)]; ok {
							objs = append(objs, ob)
						}
					}
				}
				for _, nd := range t.nodes {
					if nd.closed || nd.kind == nCtrl || nd.kind == nMonitor {
						continue
					}
					want := nd.pathSupplied()
					rdy := isClosed(nd.ready())
					what := fmt.Sprintf("%s %s (depth %d)", stage, nd.name(), nd.depth)
					if rdy != want {
						problems = append(problems, fmt.Sprintf("%s: Ready()=%v, expected %v", what, rdy, want))
						continue
					}
					if !rdy {
						continue
					}
					checks++
					got, _ := cacheIDs(nd.cache())
					exp := t.expectedIDs(nd, objs)
					if !sameInts(got, exp) {
						problems = append(problems, fmt.Sprintf("%s: after in-flight events drained the cache holds %v, its filters applied to the server content give %v", what, got, exp))
					}
					chain := nd.chain(nil)
					fts := make([]enc.T, len(chain))
					for j, f := range chain {
						fts[j] = f.Enc()
					}
					cases = append(cases, enc.L(enc.I(8), enc.L(fts...), EncObjs(objs), enc.Ints(got)))
					// its own event stream is a well-formed delta of its own cache
					if nd.sub != nil {
						evs := nd.received()
						if cp, ok := cps[nd]; ok {
							m, bad := mirrorOf(cp.seed, evs[cp.idx:])
							for _, b := range bad {
								problems = append(problems, what+": ill-formed event: "+b)
							}
							if mi := idsOfMirror(m); !sameInts(mi, got) {
								problems = append(problems, fmt.Sprintf("%s: replaying its events since the last barrier gives %v, its cache holds %v", what, mi, got))
							}
						}
						l, _ := nd.cache().List()
						cps[nd] = &ckpt{seedOf(l), len(evs)}
					}
				}
			}
			steps := 15 + c.Rng.Intn(25)
			for s := 0; s < steps; s++ {
				switch x := c.Rng.Intn(12); {
				case x < 5:
					mutate(c, srv)
					if replays && x == 0 {
						if c.Rng.Intn(2) == 0 {
							srv.ReplayLast(1 + c.Rng.Intn(4))
						} else {
							srv.ReplayStale(1 + c.Rng.Intn(2))
						}
						c.Stat("replay_faults", 1)
					}
				case x < 8:
					pubs := t.publishers()
					p := pubs[c.Rng.Intn(len(pubs))]
					if p.depth >= 3 {
						p = t.root
					}
					kind := []int{nFSub, nDSub, nFClone, nDClone, nSub, nClone}[c.Rng.Intn(6)]
					var f *Filt
					if kind == nFSub || kind == nFClone {
						f = fam[c.Rng.Intn(len(fam))]
					}
					if _, err := t.add(p, kind, f); err != nil {
						problems = append(problems, "creating "+kindNames[kind]+" failed: "+err.Error())
					}
				case x < 11:
					var fl []*node
					for _, nd := range t.nodes {
						if nd.isFiltered() && !nd.closed {
							fl = append(fl, nd)
						}
					}
					if len(fl) > 0 {
						nd := fl[c.Rng.Intn(len(fl))]
						f := fam[c.Rng.Intn(len(fam))]
						if c.Rng.Intn(4) == 0 && nd.filt != nil {
							f = rebuild(nd.filt) // an equal filter
						}
						if err := t.refilter(nd, f); err != nil {
							problems = append(problems, "Refilter failed: "+err.Error())
						}
					}
				case x == 11 && s%2 == 0:
					// a subscription goes away while events are being published
					var leaves []*node
					for _, nd := range t.nodes {
						if nd.sub != nil && !nd.closed && len(nd.children) == 0 {
							leaves = append(leaves, nd)
						}
					}
					if len(leaves) > 1 {
						nd := leaves[c.Rng.Intn(len(leaves))]
						go nd.close()
						markClosed(nd)
						mutate(c, srv)
						mutate(c, srv)
					}
				default:
					verify(fmt.Sprintf("barrier at step %d:", s))
				}
			}
			verify("final barrier:")
			sample = map[string]interface{}{"tree": treeShape(t), "nodes": len(t.nodes)}
		})
		runs++
		c.Rep.Evaluations++
		replay := map[string]interface{}{"seed": seed, "perturbation": level, "scenario": sample}
		if dl != "" {
			replay["deadlock"] = dl
			c.Violation("", "hang (bubble deadlock) in a filtered-tree scenario", replay)
		}
		for _, p := range problems {
			c.Violation("", p, replay)
		}
		for _, t := range cases {
			c.Case(t)
		}
		if checks >= 4 {
			c.DistinctCase(fmt.Sprint(seed))
		}
		c.Stat("node_checks", checks)
		if i == 1 {
			c.Sample(sample)
		}
	}
	// long histories with consumers that only use Cache() and never read
	// Events(): the caches stay current however many events were emitted
	for i := 0; i < 3; i++ {
		var problems []string
		seed := c.Seed*1000 + 900 + int64(i)
		what := "filtered subscriptions whose Events() is never read, 140 accepted changes"
		c.Now(what)
		dl := treeBubble(c, seed, i%3, nil, func(t *tree, srv *fakeapi.Server) {
			all := &Filt{Tag: FNot, Children: []*Filt{{Tag: FNSName, IDs: []ID2{{NS: 2, NM: 3}}}}}
			var nds []*node
			a, _ := t.add(t.root, nFSub, all)
			b, _ := t.add(t.root, nDSub, nil)
			cl, _ := t.add(t.root, nFClone, all)
			var d *node
			if cl != nil {
				d, _ = t.add(cl, nFSub, fam[i%len(fam)])
			}
			for _, nd := range []*node{a, b, d} {
				if nd != nil {
					nd.setStall(true)
					nds = append(nds, nd)
				}
			}
			if b != nil {
				t.refilter(b, all)
			}
			for k := 0; k < 140; k++ {
				srv.Set(1+k%2, 1+k%3, labSets[k%3], 1)
				if k%10 == 9 {
					t.ct.pert.Barrier()
				}
			}
			t.ct.pert.Barrier()
			objs := srv.Objects()
			for _, nd := range nds {
				got, err := cacheIDs(nd.cache())
				exp := t.expectedIDs(nd, objs)
				if err != nil || !sameInts(got, exp) {
					problems = append(problems, fmt.Sprintf("%s, whose Events() is never read: after 140 changes the cache holds %v (err %v), its filters applied to the server content give %v", nd.name(), got, err, exp))
				}
			}
			if b != nil {
				// and Refilter still works
				done := make(chan struct{})
				go func() { t.refilter(b, fam[1]); close(done) }()
				t.ct.pert.Barrier()
				if !isClosed(done) {
					problems = append(problems, b.name()+": Refilter blocks behind unread events")
				}
			}
		})
		runs++
		c.Rep.Evaluations++
		replay := map[string]interface{}{"seed": seed, "scenario": what}
		if dl != "" {
			replay["deadlock"] = dl
			c.Violation("", "hang (bubble deadlock): "+what, replay)
		}
		for _, p := range problems {
			c.Violation("", p, replay)
		}
		c.DistinctCase(fmt.Sprint("unread", i))
	}
	// events that carry a LOWER version than the newest one a node has seen are
	// not stale: a Refilter upstream re-creates old objects, a relist synthesises
	// the Delete of an object at its old cached version
	for i := 0; i < 4; i++ {
		var problems []string
		what := "events carrying lower versions than the newest seen (upstream Refilter; relist-synthesised Delete)"
		c.Now(what)
		dl := sched.Bubble(c.T, func() {
			srv := fakeapi.New()
			srv.Set(1, 1, labSets[2], 1) // A@1, label b
			srv.Set(1, 2, labSets[1], 1) // B@2, label a
			ct := newCtlWith(srv, c.Seed*1000+950+int64(i), i%3, 2*time.Second, nil)
			t := newTree(ct, nil)
			defer func() {
				ct.pert.SetLevel(0)
				ct.c.Close()
				sched.Settle()
				for _, n := range t.nodes {
					if n.readerEnd != nil {
						<-n.readerEnd
					}
				}
			}()
			ct.pert.Barrier()
			kindP := []int{nFClone, nFClone, nDClone, nDClone}[i]
			kindS := []int{nFSub, nDSub, nFSub, nDSub}[i]
			var P, S *node
			if kindP == nFClone {
				P, _ = t.add(t.root, nFClone, fam[2])
			} else {
				P, _ = t.add(t.root, nDClone, nil)
				if P != nil {
					t.refilter(P, fam[2])
				}
			}
			if P == nil {
				problems = append(problems, "creating the filtered clone failed")
				return
			}
			all := not(&Filt{Tag: FNSName, IDs: []ID2{{NS: 2, NM: 3}}})
			if kindS == nFSub {
				S, _ = t.add(P, nFSub, all)
			} else {
				S, _ = t.add(P, nDSub, nil)
				if S != nil {
					t.refilter(S, all)
				}
			}
			direct, _ := t.add(t.root, nFSub, all)
			if S == nil || direct == nil {
				problems = append(problems, "creating the filtered subscriptions failed")
				return
			}
			check := func(stage string) {
				ct.pert.Barrier()
				objs := srv.Objects()
				for _, nd := range []*node{P, S, direct} {
					got, err := cacheIDs(nd.cache())
					exp := t.expectedIDs(nd, objs)
					if err != nil || !sameInts(got, exp) {
						problems = append(problems, fmt.Sprintf("%s: %s holds %v (err %v), its filters applied to the server content give %v", stage, nd.name(), got, err, exp))
					}
				}
			}
			check("at the start")
			srv.Set(1, 2, labSets[1], 1) // B again: every node below P has now seen version 3
			check("after a newer version of B")
			t.refilter(P, fam[5]) // the clone now also accepts label b: it publishes Create A@1
			check("after the upstream Refilter re-created A at version 1")
			// the watch misses the deletion of A; the relist notices and publishes Delete A@1
			srv.DropNext(1)
			srv.Delete(1, 1)
			time.Sleep(5 * time.Second)
			check("after a relist noticed the deletion of A (Delete at its old version)")
		})
		runs++
		c.Rep.Evaluations++
		replay := map[string]interface{}{"scenario": what, "variant": i}
		if dl != "" {
			replay["deadlock"] = dl
			c.Violation("", "hang (bubble deadlock): "+what, replay)
		}
		for _, p := range problems {
			c.Violation("", p, replay)
		}
		c.DistinctCase(fmt.Sprint("lower-version", i))
	}
	// a parent event published while a Refilter is being applied (after the
	// parent was listed, before the new filter is in place: the filter is slow)
	// is neither in that listing nor lost: it is consumed afterwards
	for i := 0; i < 4; i++ {
		var problems []string
		what := "a parent event published while a (slow) Refilter is being applied"
		c.Now(what)
		dl := treeBubble(c, c.Seed*1000+970+int64(i), i%3, nil, func(t *tree, srv *fakeapi.Server) {
			kind := []int{nFSub, nFClone, nDSub, nDClone}[i]
			var nd *node
			if kind == nFSub || kind == nFClone {
				nd, _ = t.add(t.root, kind, fam[2])
			} else {
				nd, _ = t.add(t.root, kind, nil)
				if nd != nil {
					t.refilter(nd, fam[2])
				}
			}
			if nd == nil {
				problems = append(problems, "creating the node failed")
				return
			}
			srv.Set(2, 1, labSets[1], 1)
			srv.Set(2, 2, labSets[2], 1)
			t.ct.pert.Barrier()
			var slow atomic.Bool
			slowAll := filter.FN(func(metav1.Object) bool {
				if slow.Load() {
					time.Sleep(100 * time.Millisecond)
				}
				return true
			})
			slow.Store(true)
			done := make(chan struct{})
			go func() { nd.fs.Refilter(slowAll); close(done) }()
			nd.filt, nd.hasFilt = fn(&Filt{Tag: FNull}), true
			// the Refilter has listed the parent and is evaluating its slow filter
			time.Sleep(150 * time.Millisecond)
			srv.Set(2, 3, labSets[0], 1)
			srv.Delete(2, 1)
			time.Sleep(2 * time.Second)
			slow.Store(false)
			t.ct.pert.Barrier()
			if !isClosed(done) {
				problems = append(problems, "Refilter has not returned")
			}
			got, err := cacheIDs(nd.cache())
			exp := t.expectedIDs(nd, srv.Objects())
			if err != nil || !sameInts(got, exp) {
				problems = append(problems, fmt.Sprintf("%s holds %v (err %v) after the Refilter and the events published during it; its filter applied to the server content gives %v", nd.name(), got, err, exp))
			}
		})
		runs++
		c.Rep.Evaluations++
		replay := map[string]interface{}{"scenario": what, "variant": i}
		if dl != "" {
			replay["deadlock"] = dl
			c.Violation("", "hang (bubble deadlock): "+what, replay)
		}
		for _, p := range problems {
			c.Violation("", p, replay)
		}
		c.DistinctCase(fmt.Sprint("event-during-refilter", i))
	}
	c.Rep.Rule = "random trees mixing all six subscribe/clone forms to depth 3 on a real controller fed by the fake watch; parent histories that move objects in and out of the filters; Refilter (new, back to earlier, equal-rebuilt, non-comparable FN) and closes of sibling subscriptions fired WITHOUT barriers, racing with readiness and in-flight events, under 3 levels of logger-driven perturbation; in a fifth of the runs the watch also replays stretches of old history and isolated stale frames (objects re-created at older versions; the root cache is then the ground truth). At barriers: every ready node's cache = its filter chain applied to the server content (also vs the extracted nested_view), deferred nodes ready iff supplied, every subscription's events since the previous barrier replay (well-formed, strictly newer updates) from its previous cache to its current cache. Plus filtered subscriptions that are used only through Cache() (Events() never read) over 140 accepted changes: caches current, Refilter not blocked. Plus events carrying lower versions than the newest a node has seen (an upstream Refilter re-creating an old object, a relist-synthesised Delete at the old cached version): applied, not skipped. Plus parent events published while a slow Refilter is being applied (after the listing): consumed afterwards, not lost. Non-trivial = scenario with >= 4 node checks. Plus the window in which the parent's cache has stopped and its Events() is still open (context cancelled while the controller goroutine is held at a log call): a Refilter(accept-all) there may not produce a Delete (C06); with the controller held at its n-th start-up log call (n=1..6), cancelled, and held again at its next one, a node that says Ready and whose cache can be read holds its filter's view of the server (C06, C08)."
	c.Rep.Stats["runs"] = runs
}

// parentCacheStopped: the window in which a filtered subscription's parent has
// a stopped cache and an open Events() channel.  The root cache watches the
// controller's context by itself; the controller's own goroutine is held at a
// log call (a preemption there), so after a context cancel the cache has
// stopped and nothing has been closed yet.
//   (a) a Refilter to accept-all in that window: the parent's content cannot be
//       read; nothing was deleted and the new filter admits more than the old
//       one, so no Delete event may come out, whatever else happens;
//   (b) the controller held at its n-th log call during start-up (n = 1..6: no
//       log text is looked at), cancelled there, let go and held again at its
//       next log call: whenever the filtered subscription says Ready and its
//       cache can be read, the cache is the filter applied to the (quiet)
//       server's content — never an empty or partial one.
func parentCacheStopped(c *Ctx, pid string) {
	lab := &Filt{Tag: FLabels, Map: Map{{1, 1}}}
	fill := func(srv *fakeapi.Server) {
		srv.Set(1, 1, labSets[1], 1)
		srv.Set(1, 2, labSets[1], 1)
		srv.Set(2, 1, labSets[2], 1)
		srv.Set(2, 2, labSets[0], 1)
	}
	if pid == "C06" {
		what := "Refilter(accept-all) on a filtered subscription while its parent's cache has stopped and nothing is closed yet (context cancelled, controller goroutine preempted)"
		c.Now(what)
		var problems []string
		dl := sched.Bubble(c.T, func() {
			srv := fakeapi.New()
			fill(srv)
			ct := newCtlWith(srv, c.Seed, 0, 1000000*time.Second, nil)
			var release func()
			defer func() {
				if release != nil {
					release()
				}
				ct.c.Close()
				sched.Settle()
			}()
			sched.Settle()
			fs, err := ct.c.SubscribeWithFilter(lab.Go())
			if err != nil {
				problems = append(problems, "SubscribeWithFilter failed")
				return
			}
			sched.Settle()
			if !isClosed(fs.Ready()) {
				problems = append(problems, "not ready")
				return
			}
			var deletes atomic.Int64
			go func() {
				for ev := range fs.Events() {
					if ev.Type() == kcache.EventTypeDelete {
						deletes.Add(1)
					}
				}
			}()
			release = ct.pert.Hold("controller")
			ct.cancel()
			sched.Settle()
			fs.Refilter((&Filt{Tag: FNull}).Go()) // may be refused: the subscription may be stopping
			sched.Settle()
			release()
			release = nil
			sched.Settle()
			if n := deletes.Load(); n > 0 {
				problems = append(problems, fmt.Sprintf("%d Delete events on a filtered subscription although nothing was deleted and the new filter accepts everything", n))
			}
		})
		c.Rep.Evaluations++
		replay := map[string]interface{}{"scenario": what}
		if dl != "" {
			replay["deadlock"] = dl
			c.Violation("", "hang (bubble deadlock): "+what, replay)
		}
		for _, p := range problems {
			c.Violation("", p+" ["+what+"]", replay)
		}
		c.DistinctCase("parent-cache-stopped-refilter")
	}
	for n := 1; n <= 6; n++ {
		what := fmt.Sprintf("controller cancelled while its goroutine is preempted at its log call %d of the start-up, then preempted again at its next one: a filtered subscription that says Ready holds its filter's view", n)
		c.Now(what)
		var problems []string
		dl := sched.Bubble(c.T, func() {
			srv := fakeapi.New()
			fill(srv)
			release := srv.HoldLists()
			ct := newCtlWith(srv, c.Seed+int64(n), 0, 1000000*time.Second, nil)
			var releases []func()
			defer func() {
				for _, r := range releases {
					r()
				}
				ct.c.Close()
				sched.Settle()
			}()
			fs, err := ct.c.SubscribeWithFilter(lab.Go())
			if err != nil {
				release()
				problems = append(problems, "SubscribeWithFilter failed")
				return
			}
			relN, held := ct.pert.HoldNth("controller", n)
			releases = append(releases, relN)
			release()
			sched.Settle()
			if !held() {
				return // fewer log calls than n during start-up
			}
			ct.cancel()
			sched.Settle()
			relNext, _ := ct.pert.HoldNth("controller", 1) // the next log call after this one
			releases = append(releases, relNext)
			relN()
			sched.Settle()
			if isClosed(fs.Ready()) {
				if got, err := cacheIDs(fs.Cache()); err == nil {
					if want := acceptedIDs(srv.Objects(), lab.Go()); !sameInts(got, want) {
						problems = append(problems, fmt.Sprintf("Ready() is closed and the cache reads %v, the filter applied to the parent's content is %v", got, want))
					}
				}
			}
		})
		c.Rep.Evaluations++
		replay := map[string]interface{}{"scenario": what, "n": n}
		if dl != "" {
			replay["deadlock"] = dl
			c.Violation("", "hang (bubble deadlock): "+what, replay)
		}
		for _, p := range problems {
			c.Violation("", p+" ["+what+"]", replay)
		}
		c.DistinctCase(fmt.Sprint("parent-cache-stopped-ready-", n))
	}
}

// subscribeUnderFlood: filtered subscriptions / filtered clones created one
// after another on a READY controller while one accepted object is being
// updated as fast as the server can (real parallelism inside the bubble, no
// barriers).  The object exists before and throughout, so it is part of every
// node's content at its readiness: a stream may carry Updates for it, never a
// Create, and nothing at all before the node's Ready() is closed.
func subscribeUnderFlood(c *Ctx) {
	m := 200
	if !c.Quick() {
		m = 1500
	}
	what := fmt.Sprintf("%d filtered subscriptions and filtered clones created one after another on a ready controller while one accepted object is updated continuously", m)
	c.Now(what)
	var creates, early atomic.Int64
	var events atomic.Int64
	var problems []string
	lab := &Filt{Tag: FLabels, Map: Map{{1, 1}}}
	dl := sched.Bubble(c.T, func() {
		srv := fakeapi.New()
		srv.Set(1, 1, labSets[1], 1)
		srv.Set(1, 2, labSets[2], 1)
		ct := newCtlWith(srv, c.Seed, 0, 1000000*time.Second, nil)
		defer func() {
			ct.c.Close()
			sched.Settle()
		}()
		sched.Settle()
		if !isClosed(ct.c.Ready()) {
			problems = append(problems, "not ready")
			return
		}
		stop := make(chan struct{})
		produced := make(chan struct{})
		go func() {
			defer close(produced)
			for i := 0; i < 400000; i++ {
				select {
				case <-stop:
					return
				default:
				}
				srv.Set(1, 1, labSets[1], 1+i%2)
				goruntime.Gosched()
			}
		}()
		watchStream := func(ready <-chan struct{}, evs <-chan kcache.Event) {
			go func() {
				for ev := range evs {
					events.Add(1)
					if !isClosed(ready) {
						early.Add(1)
					}
					if ev.Type() == kcache.EventTypeCreate {
						creates.Add(1)
					}
				}
			}()
		}
		for i := 0; i < m; i++ {
			if i%2 == 0 {
				fs, err := ct.c.SubscribeWithFilter(lab.Go())
				if err != nil {
					problems = append(problems, "SubscribeWithFilter failed")
					break
				}
				watchStream(fs.Ready(), fs.Events())
			} else {
				fc, err := ct.c.CloneWithFilter(lab.Go())
				if err != nil {
					problems = append(problems, "CloneWithFilter failed")
					break
				}
				sub, err := fc.Subscribe()
				if err != nil {
					problems = append(problems, "Subscribe on a filtered clone failed")
					break
				}
				watchStream(sub.Ready(), sub.Events())
			}
			goruntime.Gosched()
		}
		close(stop)
		<-produced
		sched.Settle()
	})
	c.Rep.Evaluations++
	c.Stat("flood_events_received", int(events.Load()))
	replay := map[string]interface{}{"scenario": what, "creates": creates.Load(), "events_before_ready": early.Load(), "events_received": events.Load()}
	if dl != "" {
		replay["deadlock"] = dl
		c.Violation("", "hang (bubble deadlock): "+what, replay)
	}
	for _, p := range problems {
		c.Violation("", p+" ["+what+"]", replay)
	}
	if n := creates.Load(); n > 0 {
		c.Violation("", fmt.Sprintf("%d Create events for an object that existed before every one of the nodes was created (it is part of their content at readiness) [%s]", n, what), replay)
	}
	if n := early.Load(); n > 0 {
		c.Violation("", fmt.Sprintf("%d events received from nodes whose Ready() was still open [%s]", n, what), replay)
	}
	c.DistinctCase("subscribe-under-flood")
}

// equalRefilterRace: a Refilter with a filter EQUAL to the current one that
// becomes ready at the same moment as a parent event for a newly accepted
// object.  The node's goroutine is held at a log call while it handles an
// earlier event (a preemption there; which of the component's log calls that
// is does not matter for the oracle, n = 1..4 are all tried), the server
// creates another accepted object, Refilter(equal) is called from a second
// goroutine, and the node is let go: its select finds both ready and takes
// either.  Whichever it takes: the equal Refilter emits nothing and changes
// nothing, so a consumer that mirrors the stream from the content at
// readiness ends up with the node's cache, which is the filter applied to the
// server.
func equalRefilterRace(c *Ctx, pid string) {
	reps := 8
	if !c.Quick() {
		reps = 60
	}
	lab := &Filt{Tag: FLabels, Map: Map{{1, 1}}}
	for n := 1; n <= 4; n++ {
		for rep := 0; rep < reps; rep++ {
			what := fmt.Sprintf("Refilter(equal filter) and a parent event for a new accepted object ready at once (node held at the component's log call %d while it handles the previous event)", n)
			c.Now(what)
			var problems []string
			var mirrorIDs, cache, want []int
			dl := sched.Bubble(c.T, func() {
				srv := fakeapi.New()
				srv.Set(1, 1, labSets[1], 1)
				ct := newCtlWith(srv, c.Seed+int64(rep), 0, 1000000*time.Second, nil)
				defer func() {
					ct.c.Close()
					sched.Settle()
				}()
				sched.Settle()
				fs, err := ct.c.SubscribeWithFilter(lab.Go())
				if err != nil {
					problems = append(problems, "SubscribeWithFilter failed")
					return
				}
				sched.Settle()
				seed, _ := fs.Cache().List()
				m := newMirror(fs, seed)
				release, held := ct.pert.HoldNth("publisher", n)
				srv.Set(1, 2, labSets[1], 1) // the previous event
				sched.Settle()
				srv.Set(2, 1, labSets[1], 2) // the event that races with the Refilter
				sched.Settle()
				refiltered := make(chan error, 1)
				go func() { refiltered <- fs.Refilter(lab.Go()) }()
				sched.Settle()
				_ = held
				release()
				sched.Settle()
				select {
				case err := <-refiltered:
					if err != nil {
						problems = append(problems, "Refilter(equal) failed: "+err.Error())
					}
				default:
					problems = append(problems, "Refilter(equal) has not returned")
				}
				mirrorIDs = m.ids()
				cache, _ = cacheIDs(fs.Cache())
				want = acceptedIDs(srv.Objects(), lab.Go())
				if _, bad, _ := m.snapshot(); len(bad) > 0 {
					problems = append(problems, fmt.Sprint("ill-formed events: ", bad))
				}
			})
			c.Rep.Evaluations++
			replay := map[string]interface{}{"scenario": what, "mirror": fmt.Sprint(mirrorIDs), "cache": fmt.Sprint(cache), "server_accepted": fmt.Sprint(want)}
			if dl != "" {
				replay["deadlock"] = dl
				c.Violation("", "hang (bubble deadlock): "+what, replay)
				continue
			}
			for _, p := range problems {
				c.Violation("", p+" ["+what+"]", replay)
			}
			if len(problems) == 0 {
				if !sameInts(cache, want) {
					c.Violation("", fmt.Sprintf("the filtered subscription's cache holds %v, its filter applied to the server %v [%s]", cache, want, what), replay)
				} else if !sameInts(mirrorIDs, cache) {
					c.Violation("", fmt.Sprintf("a consumer that mirrors the stream holds %v, the node's cache %v: an equal Refilter changed the cache without an event [%s]", mirrorIDs, cache, what), replay)
				}
			}
			c.DistinctCase(fmt.Sprint("equal-refilter-race-", n))
		}
	}
}

// closeWithBacklog: a filtered subscription whose filter is slow (virtual
// time) is closed while twenty events published before the close still sit in
// the subscription it reads from.  They were published while it was
// subscribed, its own backlog is far below the buffer: it hands on all twenty
// before its Events() closes — like the plain subscriber next to it.
func closeWithBacklog(c *Ctx) {
	what := "a filtered subscription with a slow filter closed while 20 events published before the close are still buffered in front of it"
	c.Now(what)
	const n = 20
	var got, plainGot int
	var closed bool
	var problems []string
	dl := sched.Bubble(c.T, func() {
		srv := fakeapi.New()
		srv.Set(1, 1, labSets[1], 1)
		ct := newCtlWith(srv, c.Seed, 0, 1000000*time.Second, nil)
		defer func() {
			ct.c.Close()
			sched.Settle()
		}()
		sched.Settle()
		var slow atomic.Bool
		fs, err := ct.c.SubscribeWithFilter(filter.FN(func(metav1.Object) bool {
			if slow.Load() {
				time.Sleep(10 * time.Millisecond)
			}
			return true
		}))
		plain, err2 := ct.c.Subscribe()
		if err != nil || err2 != nil {
			problems = append(problems, "subscribe failed")
			return
		}
		sched.Settle()
		if !isClosed(fs.Ready()) {
			problems = append(problems, "not ready")
			return
		}
		slow.Store(true)
		for i := 0; i < n; i++ {
			srv.Set(2, 1+i, labSets[1], 1)
		}
		sched.Settle() // published to both; the filtered node is asleep in its filter on the first one
		fs.Close()
		time.Sleep(5 * time.Second)
		sched.Settle()
	drain:
		for {
			select {
			case _, ok := <-fs.Events():
				if !ok {
					closed = true
					break drain
				}
				got++
			default:
				break drain
			}
		}
	drainPlain:
		for {
			select {
			case _, ok := <-plain.Events():
				if !ok {
					break drainPlain
				}
				plainGot++
			default:
				break drainPlain
			}
		}
	})
	c.Rep.Evaluations++
	replay := map[string]interface{}{"scenario": what, "published": n, "received_by_the_filtered_subscription": got, "received_by_a_plain_subscriber": plainGot, "events_closed": closed}
	if dl != "" {
		replay["deadlock"] = dl
		c.Violation("", "hang (bubble deadlock): "+what, replay)
		return
	}
	for _, p := range problems {
		c.Violation("", p+" ["+what+"]", replay)
	}
	if len(problems) == 0 {
		if plainGot != n {
			c.Violation("", fmt.Sprintf("harness: the plain subscriber received %d of %d events [%s]", plainGot, n, what), replay)
		} else if got != n {
			c.Violation("", fmt.Sprintf("the filtered subscription handed on %d of the %d events published before it was closed (a plain subscriber next to it received them all) [%s]", got, n, what), replay)
		}
		if !closed {
			c.Violation("", "Events() of a closed filtered subscription is not closed 5 s after Close ["+what+"]", replay)
		}
	}
	c.DistinctCase("close-with-backlog")
}

// refilterAtParentClose: Refilter called while the node is between seeing its
// parent close and marking itself as shutting down (its goroutine held at a
// log call there; the component's log calls n = 1..12 after the Close are all
// tried, no text is looked at).  Whatever the moment, Refilter RETURNS once the
// node has shut down — with nil or with an error — and nothing is left behind.
func refilterAtParentClose(c *Ctx) {
	for n := 1; n <= 12; n++ {
		what := fmt.Sprintf("Refilter on a filtered subscription whose parent has just closed, the component held at its log call %d after the Close", n)
		c.Now(what)
		var problems []string
		dl := sched.Bubble(c.T, func() {
			srv := fakeapi.New()
			srv.Set(1, 1, labSets[1], 1)
			ct := newCtlWith(srv, c.Seed+int64(n), 0, 1000000*time.Second, nil)
			sched.Settle()
			fs, err := ct.c.SubscribeWithFilter((&Filt{Tag: FLabels, Map: Map{{1, 1}}}).Go())
			if err != nil {
				problems = append(problems, "SubscribeWithFilter failed")
				ct.c.Close()
				return
			}
			go func() {
				for range fs.Events() {
				}
			}()
			sched.Settle()
			release, _ := ct.pert.HoldNth("publisher", n)
			ct.c.Close()
			sched.Settle()
			returned := make(chan error, 1)
			go func() { returned <- fs.Refilter((&Filt{Tag: FNull}).Go()) }()
			sched.Settle()
			release()
			sched.Settle()
			time.Sleep(2 * time.Second)
			sched.Settle()
			select {
			case <-returned:
			default:
				problems = append(problems, "Refilter has not returned 2 s after the node's parent closed and the node shut down")
			}
			if !isClosed(fs.Done()) {
				problems = append(problems, "the filtered subscription is not done 2 s after its controller was closed")
			}
		})
		c.Rep.Evaluations++
		replay := map[string]interface{}{"scenario": what, "n": n}
		if dl != "" {
			replay["deadlock"] = dl
			if len(problems) == 0 {
				c.Violation("", "goroutines left blocked (bubble deadlock): "+what, replay)
			}
		}
		for _, p := range problems {
			c.Violation("", p+" ["+what+"]", replay)
		}
		c.DistinctCase(fmt.Sprint("refilter-at-parent-close-", n))
	}
}
