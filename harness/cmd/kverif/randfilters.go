package main

import (
	"math/rand"

	. "verifharness/kobj"
)

// Random filters and objects over small ranges in EVERY dimension (empty
// kinds, namespaces and names; empty, nil and repeated values; selectors with
// several requirements on one key; id lists with duplicates and wildcards;
// workloads without selector; services of special types ...).  The fixed atom
// lists of filters.go are what a reader would write down; these are what he
// would not think of.  Everything generated is legal for the constructors
// (label keys are never empty, In / NotIn carry at least one value, Exists /
// DoesNotExist none).

func randKeys(rng *rand.Rand, n int) []int {
	p := rng.Perm(3)
	r := make([]int, n)
	for i := range r {
		r[i] = 1 + p[i]
	}
	return r
}

func randMap(rng *rand.Rand, maxn int) Map {
	n := rng.Intn(maxn + 1)
	if n == 0 {
		if rng.Intn(2) == 0 {
			return nil
		}
		return Map{}
	}
	m := make(Map, 0, n)
	for _, k := range randKeys(rng, n) {
		m = append(m, KV{K: k, V: rng.Intn(4)})
	}
	return m
}

func randLSel(rng *rand.Rand) *LSel {
	if rng.Intn(8) == 0 {
		return nil
	}
	s := &LSel{Labels: randMap(rng, 2)}
	for i, n := 0, rng.Intn(4); i < n; i++ {
		e := Expr{Key: 1 + rng.Intn(3), Op: rng.Intn(4)}
		if e.Op < 2 {
			for j, k := 0, 1+rng.Intn(3); j < k; j++ {
				e.Vals = append(e.Vals, rng.Intn(4))
			}
		}
		s.Exprs = append(s.Exprs, e)
	}
	return s
}

func randObj(rng *rand.Rand, kind, id int) *Obj {
	o := &Obj{ID: id, Kind: kind, NS: rng.Intn(3), NM: 1 + rng.Intn(3), RV: "1", Labels: randMap(rng, 3), Inc: rng.Intn(3)}
	switch kind {
	case KPod:
		o.Spec, o.Node = SPod, rng.Intn(3)
	case KService:
		o.Spec, o.Sel, o.Scale = SService, randMap(rng, 2), rng.Intn(3)
	case KRC:
		o.Spec, o.Sel, o.Tmpl, o.Scale = SRC, randMap(rng, 2), randMap(rng, 2), rng.Intn(3)
	case KRS, KDeployment, KDaemonSet, KStatefulSet, KJob:
		o.Spec, o.LSel, o.Tmpl, o.Scale = SWorkload, randLSel(rng), randMap(rng, 2), rng.Intn(3)
	case KEvent:
		o.Spec, o.IKind, o.INS, o.INM = SEvent, rng.Intn(3), rng.Intn(3), rng.Intn(4)
	case KIngress:
		o.Spec, o.Backend = SIngress, rng.Intn(4)
		for i, n := 0, rng.Intn(4); i < n; i++ {
			o.Paths = append(o.Paths, rng.Intn(4))
		}
	default:
		o.Spec = SNone
	}
	return o
}

var randKinds = []int{KPod, KPod, KPod, KService, KService, KEvent, KEvent, KNode, KSecret, KRC, KRS, KDeployment, KIngress}

func randObjs(rng *rand.Rand, n, startID int) []*Obj {
	r := make([]*Obj, n)
	for i := range r {
		r[i] = randObj(rng, randKinds[rng.Intn(len(randKinds))], startID+i)
	}
	return r
}

// randAtom builds a random filter of the given constructor.
func randAtom(rng *rand.Rand, tag int, id *int) *Filt {
	next := func() int { *id++; return *id }
	objs := func(kinds ...int) []*Obj {
		// a set of source objects as it comes out of a cache: no two of them
		// share namespace and name (the constructors sort by these, and the
		// order of two sources with the same key would be arbitrary)
		var r []*Obj
		seen := map[[2]int]bool{}
		for i, n := 0, rng.Intn(4); i < n; i++ {
			o := randObj(rng, kinds[rng.Intn(len(kinds))], next())
			if seen[[2]int{o.NS, o.NM}] {
				continue
			}
			seen[[2]int{o.NS, o.NM}] = true
			r = append(r, o)
		}
		return r
	}
	switch tag {
	case FNSName:
		f := &Filt{Tag: FNSName}
		for i, n := 0, rng.Intn(5); i < n; i++ {
			f.IDs = append(f.IDs, ID2{rng.Intn(3), rng.Intn(3)})
		}
		return f
	case FLabels:
		return &Filt{Tag: FLabels, Map: randMap(rng, 3)}
	case FLabelSelector:
		return &Filt{Tag: FLabelSelector, LSel: randLSel(rng)}
	case FNode:
		f := &Filt{Tag: FNode}
		for i, n := 0, rng.Intn(4); i < n; i++ {
			f.Names = append(f.Names, rng.Intn(3))
		}
		return f
	case FInvolved:
		return &Filt{Tag: FInvolved, K: rng.Intn(3), NS: rng.Intn(3), NM: rng.Intn(4)}
	case FSelectorMatch:
		return &Filt{Tag: FSelectorMatch, Map: randMap(rng, 3)}
	case FServicePods:
		return &Filt{Tag: FServicePods, Objs: objs(KService)}
	case FRCPods:
		return &Filt{Tag: FRCPods, Objs: objs(KRC)}
	case FWorkloadPods:
		k := []int{KRS, KDeployment, KDaemonSet, KStatefulSet, KJob}[rng.Intn(5)]
		return &Filt{Tag: FWorkloadPods, Objs: objs(k)}
	case FIngressServices:
		return &Filt{Tag: FIngressServices, Objs: objs(KIngress)}
	}
	return &Filt{Tag: FNull}
}

var genericTags = []int{FNSName, FLabels, FLabelSelector}
var typedTags = []int{FNode, FInvolved, FSelectorMatch, FServicePods, FRCPods, FWorkloadPods, FIngressServices}

func randAtoms(rng *rand.Rand, tags []int, n int) []*Filt {
	id := 700000
	r := make([]*Filt, n)
	for i := range r {
		r[i] = randAtom(rng, tags[i%len(tags)], &id)
	}
	return r
}
