package main

import (
	"fmt"
	"sort"
	"sync"
	"time"

	"verifharness/fakeapi"
	. "verifharness/kobj"

	"github.com/boz/kcache"
	"github.com/boz/kcache/filter"
	metav1 "k8s.io/apimachinery/pkg/apis/meta/v1"
)

// A tree of publishers, subscriptions, filtered subscriptions, clones and
// monitors built through the public API on top of one controller.

const (
	nCtrl = iota
	nSub
	nFSub  // SubscribeWithFilter
	nDSub  // SubscribeForFilter
	nClone // Clone
	nFClone
	nDClone
	nMonitor
)

var kindNames = []string{"controller", "Subscribe", "SubscribeWithFilter", "SubscribeForFilter", "Clone", "CloneWithFilter", "CloneForFilter", "Monitor"}

// recv is one event as a consumer saw it.
type recv struct {
	ty, id, ver int
	key        [2]string
	seq        int64
	readyThen  bool // Ready() was closed when the event was received
	getVer     int  // version Get() returned right after (0: absent, -1: error)
	maxSeen    int  // newest version received for this key so far (since its last delete)
}

type node struct {
	id       int
	kind     int
	parent   *node
	children []*node
	filt     *Filt // current own filter (nil: none / not yet supplied)
	hasFilt  bool  // deferred nodes: a filter has been supplied
	depth    int

	pub kcache.Publisher       // ctrl / clones
	ctl kcache.Controller      // ctrl / clone (for Close, Done, Ready, Cache)
	sub kcache.Subscription    // sub-like
	fs  interface{ Refilter(filter.Filter) error }
	mon kcache.Monitor

	mu        sync.Mutex
	events    []recv
	closedCh  bool // Events() channel seen closed
	stall     chan struct{} // non-nil: the reader waits on it before each receive
	slow      time.Duration
	readerEnd chan struct{}
	createdAt int64 // fakeapi.Seq when the creating call returned
	refLen    int   // length of the reference sequence when created at a barrier (-1: unknown)
	closed    bool  // the harness closed this node (or an ancestor)

	// monitor
	hlog []hrec
	hbusy int
	hoverlap bool
	hdelay time.Duration
	hblock chan struct{} // non-nil: callbacks wait on it (a handler that never returns until released)
}

type hrec struct {
	what string // init, create, update, delete
	ids  []int
	seq  int64
	doneThen bool
}

func (n *node) name() string { return fmt.Sprintf("%s#%d", kindNames[n.kind], n.id) }

func (n *node) isPublisher() bool {
	return n.kind == nCtrl || n.kind == nClone || n.kind == nFClone || n.kind == nDClone
}

func (n *node) isFiltered() bool {
	return n.kind == nFSub || n.kind == nDSub || n.kind == nFClone || n.kind == nDClone
}

func (n *node) isDeferred() bool { return n.kind == nDSub || n.kind == nDClone }

func (n *node) ready() <-chan struct{} {
	if n.ctl != nil {
		return n.ctl.Ready()
	}
	if n.sub != nil {
		return n.sub.Ready()
	}
	return nil
}

func (n *node) done() <-chan struct{} {
	switch {
	case n.mon != nil:
		return n.mon.Done()
	case n.ctl != nil:
		return n.ctl.Done()
	case n.sub != nil:
		return n.sub.Done()
	}
	return nil
}

func (n *node) cache() kcache.CacheReader {
	if n.ctl != nil {
		return n.ctl.Cache()
	}
	if n.sub != nil {
		return n.sub.Cache()
	}
	return nil
}

func (n *node) close() {
	switch {
	case n.mon != nil:
		n.mon.Close()
	case n.ctl != nil:
		n.ctl.Close()
	case n.sub != nil:
		n.sub.Close()
	}
}

// filters on the path from the root controller to this node (own included)
func (n *node) chain(rootFilter *Filt) []*Filt {
	var fs []*Filt
	for x := n; x != nil; x = x.parent {
		if x.isFiltered() && x.filt != nil {
			fs = append([]*Filt{x.filt}, fs...)
		}
	}
	if rootFilter != nil {
		fs = append([]*Filt{rootFilter}, fs...)
	}
	return fs
}

// expectedReady: every deferred node on the path has been given a filter
func (n *node) pathSupplied() bool {
	for x := n; x != nil; x = x.parent {
		if x.isDeferred() && !x.hasFilt {
			return false
		}
	}
	return true
}

type tree struct {
	ct       *ctl
	root     *node
	nodes    []*node
	rootFilt *Filt
	ref      *node // reference subscriber: created before any event
	nextID   int
}

func newTree(ct *ctl, rootFilt *Filt) *tree {
	t := &tree{ct: ct, rootFilt: rootFilt}
	t.root = &node{id: 0, kind: nCtrl, pub: ct.c, ctl: ct.c, refLen: -1}
	t.nodes = []*node{t.root}
	t.nextID = 1
	return t
}

func (t *tree) publishers() []*node {
	var r []*node
	for _, n := range t.nodes {
		if n.isPublisher() && !n.closed {
			r = append(r, n)
		}
	}
	return r
}

// add creates a node of the given kind under parent.  Observers start at once.
func (t *tree) add(parent *node, kind int, f *Filt) (*node, error) {
	n := &node{id: t.nextID, kind: kind, parent: parent, depth: parent.depth + 1, refLen: -1}
	var gf filter.Filter
	if f != nil {
		gf = f.Go()
	}
	var err error
	switch kind {
	case nSub:
		n.sub, err = parent.pub.Subscribe()
	case nFSub:
		var s kcache.FilterSubscription
		s, err = parent.pub.SubscribeWithFilter(gf)
		if err == nil {
			n.sub, n.fs, n.filt, n.hasFilt = s, s, f, true
		}
	case nDSub:
		var s kcache.FilterSubscription
		s, err = parent.pub.SubscribeForFilter()
		if err == nil {
			n.sub, n.fs = s, s
		}
	case nClone:
		var c kcache.Controller
		c, err = parent.pub.Clone()
		if err == nil {
			n.ctl, n.pub = c, c
		}
	case nFClone:
		var c kcache.FilterController
		c, err = parent.pub.CloneWithFilter(gf)
		if err == nil {
			n.ctl, n.pub, n.fs, n.filt, n.hasFilt = c, c, c, f, true
		}
	case nDClone:
		var c kcache.FilterController
		c, err = parent.pub.CloneForFilter()
		if err == nil {
			n.ctl, n.pub, n.fs = c, c, c
		}
	case nMonitor:
		n.mon, err = kcache.NewMonitor(parent.pub, n.handler())
	}
	if err != nil {
		return nil, err
	}
	n.createdAt = fakeapi.Seq.Add(1)
	t.nextID++
	parent.children = append(parent.children, n)
	t.nodes = append(t.nodes, n)
	if n.sub != nil {
		n.startReader()
	}
	return n, nil
}

func (n *node) startReader() {
	n.readerEnd = make(chan struct{})
	go func() {
		defer close(n.readerEnd)
		newest := map[[2]string]int{}
		for {
			n.mu.Lock()
			stall, slow := n.stall, n.slow
			n.mu.Unlock()
			if stall != nil {
				<-stall
			}
			if slow > 0 {
				time.Sleep(slow)
			}
			ev, ok := <-n.sub.Events()
			if !ok {
				n.mu.Lock()
				n.closedCh = true
				n.mu.Unlock()
				return
			}
			o := ev.Resource()
			r := recv{ty: etyOf(ev.Type()), id: ID(o), key: [2]string{o.GetNamespace(), o.GetName()}, seq: fakeapi.Seq.Add(1), readyThen: isClosed(n.sub.Ready())}
			fmt.Sscan(o.GetResourceVersion(), &r.ver)
			// after receiving an event for an object, the cache never returns an
			// older version of it
			if g, err := n.sub.Cache().Get(o.GetNamespace(), o.GetName()); err != nil {
				r.getVer = -1
			} else if g != nil {
				fmt.Sscan(g.GetResourceVersion(), &r.getVer)
			}
			if r.ty == 2 {
				delete(newest, r.key)
			} else if r.ver > newest[r.key] {
				newest[r.key] = r.ver
			}
			r.maxSeen = newest[r.key]
			n.mu.Lock()
			n.events = append(n.events, r)
			n.mu.Unlock()
		}
	}()
}

func (n *node) setStall(on bool) {
	n.mu.Lock()
	defer n.mu.Unlock()
	if on && n.stall == nil {
		n.stall = make(chan struct{})
	} else if !on && n.stall != nil {
		close(n.stall)
		n.stall = nil
	}
}

func (n *node) setHandlerBlock(on bool) {
	n.mu.Lock()
	defer n.mu.Unlock()
	if on && n.hblock == nil {
		n.hblock = make(chan struct{})
	} else if !on && n.hblock != nil {
		close(n.hblock)
		n.hblock = nil
	}
}

func (n *node) received() []recv {
	n.mu.Lock()
	defer n.mu.Unlock()
	return append([]recv(nil), n.events...)
}

func (n *node) handler() kcache.Handler {
	begin := func(what string, ids []int) {
		n.mu.Lock()
		n.hbusy++
		if n.hbusy > 1 {
			n.hoverlap = true
		}
		n.hlog = append(n.hlog, hrec{what: what, ids: ids, seq: fakeapi.Seq.Add(1), doneThen: n.mon != nil && isClosed(n.mon.Done())})
		d := n.hdelay
		blk := n.hblock
		n.mu.Unlock()
		if blk != nil {
			<-blk
		}
		if d > 0 {
			time.Sleep(d)
		}
		n.mu.Lock()
		n.hbusy--
		n.mu.Unlock()
	}
	one := func(what string) func(metav1.Object) {
		return func(o metav1.Object) {
			id := -1
			if o != nil {
				id = ID(o)
			}
			begin(what, []int{id})
		}
	}
	b := kcache.BuildHandler().
		OnInitialize(func(objs []metav1.Object) {
			ids := []int{}
			for _, o := range objs {
				ids = append(ids, ID(o))
			}
			sort.Ints(ids)
			begin("init", ids)
		}).
		OnCreate(one("create")).OnUpdate(one("update")).OnDelete(one("delete"))
	h := b.Create()
	// the builder is configured again afterwards for another handler: the one
	// already created is unaffected
	_ = b.OnCreate(one("hijack")).OnUpdate(one("hijack")).OnDelete(one("hijack")).Create()
	return h
}

func (n *node) handlerLog() ([]hrec, bool) {
	n.mu.Lock()
	defer n.mu.Unlock()
	return append([]hrec(nil), n.hlog...), n.hoverlap
}

// refilter supplies a filter to a filtered node.
func (t *tree) refilter(n *node, f *Filt) error {
	err := n.fs.Refilter(f.Go())
	if err == nil {
		n.filt, n.hasFilt = f, true
	}
	return err
}

// markClosed marks n and its subtree closed (the harness closed n).
func markClosed(n *node) {
	n.closed = true
	for _, c := range n.children {
		markClosed(c)
	}
}

// expectedIDs: server objects accepted by every filter on the path.
func (t *tree) expectedIDs(n *node, objs []*Obj) []int {
	chain := n.chain(t.rootFilt)
	var r []*Obj
	for _, o := range objs {
		ok := true
		g := o.Go()
		for _, f := range chain {
			if !f.Go().Accept(g) {
				ok = false
				break
			}
		}
		if ok {
			r = append(r, o)
		}
	}
	return objIDs(r)
}

// mirrorOf replays the events a node received onto a seed content.
func mirrorOf(seed map[[2]string][2]int, evs []recv) (map[[2]string][2]int, []string) {
	m := map[[2]string][2]int{}
	for k, v := range seed {
		m[k] = v
	}
	var bad []string
	for _, e := range evs {
		cur, present := m[e.key]
		switch e.ty {
		case 0:
			if present {
				bad = append(bad, fmt.Sprintf("Create of present key %v", e.key))
			}
			m[e.key] = [2]int{e.id, e.ver}
		case 1:
			if !present {
				bad = append(bad, fmt.Sprintf("Update of absent key %v", e.key))
			} else if e.ver <= cur[1] {
				bad = append(bad, fmt.Sprintf("Update of %v to a version that is not newer (%d -> %d)", e.key, cur[1], e.ver))
			}
			m[e.key] = [2]int{e.id, e.ver}
		case 2:
			if !present {
				bad = append(bad, fmt.Sprintf("Delete of absent key %v", e.key))
			}
			delete(m, e.key)
		}
	}
	return m, bad
}

func idsOfMirror(m map[[2]string][2]int) []int {
	var ids []int
	for _, v := range m {
		ids = append(ids, v[0])
	}
	sort.Ints(ids)
	return ids
}

func seedOf(objs []metav1.Object) map[[2]string][2]int {
	m := map[[2]string][2]int{}
	for _, o := range objs {
		var v int
		fmt.Sscan(o.GetResourceVersion(), &v)
		m[[2]string{o.GetNamespace(), o.GetName()}] = [2]int{ID(o), v}
	}
	return m
}
