package main

import (
	"fmt"
	"sync/atomic"
	"time"

	"verifharness/enc"
	"verifharness/fakeapi"
	. "verifharness/kobj"
	"verifharness/sched"

	"github.com/boz/kcache"
	"github.com/boz/kcache/filter"
	metav1 "k8s.io/apimachinery/pkg/apis/meta/v1"
)

// busyBurst replays Watcher.busy_burst on the implementation: the controller
// takes one watch event and is then held inside its filter while k further
// changes arrive one at a time (each settles before the next: the session's
// buffer never holds more than one); released, it applies what the watcher's
// output channel kept.  The indices of the changes its subscriber then sees,
// in order, are compared with the extracted busy_burst_outcome.
func busyBurst(c *Ctx, k int, level int) {
	var problems []string
	var applied []int
	what := fmt.Sprintf("controller busy while %d changes arrive (watcher channel capacity %d)", k, kcache.EventBufsiz)
	c.Now(what)
	dl := sched.Bubble(c.T, func() {
		srv := fakeapi.New()
		srv.Set(1, 1, labSets[1], 1)
		var armed, held atomic.Bool
		release := make(chan struct{})
		ff := filter.FN(func(metav1.Object) bool {
			if armed.Load() && held.CompareAndSwap(false, true) {
				<-release
			}
			return true
		})
		ct := newCtlWith(srv, c.Seed+int64(k), level, 1000000*time.Second, ff)
		defer func() {
			ct.pert.SetLevel(0)
			ct.c.Close()
			sched.Settle()
		}()
		ct.pert.Barrier()
		sub, err := ct.c.Subscribe()
		if err != nil {
			problems = append(problems, "Subscribe failed: "+err.Error())
			close(release)
			return
		}
		index := map[int]int{}
		var got []int
		end := make(chan struct{})
		go func() {
			defer close(end)
			for ev := range sub.Events() {
				got = append(got, ID(ev.Resource()))
			}
		}()
		ct.pert.Barrier()
		ct.pert.SetLevel(0)
		armed.Store(true)
		index[srv.Set(2, 1, labSets[0], 1).ID] = 1
		sched.Settle()
		if !held.Load() {
			problems = append(problems, "the controller did not reach its filter with the first event")
		}
		for j := 0; j < k; j++ {
			index[srv.Set(1+j%2, 2+j%3, labSets[j%3], 1).ID] = 2 + j
			sched.Settle()
		}
		close(release)
		sched.Settle()
		time.Sleep(time.Millisecond)
		sched.Settle()
		sub.Close()
		<-end
		for _, id := range got {
			applied = append(applied, index[id])
		}
	})
	c.Rep.Evaluations++
	replay := map[string]interface{}{"scenario": what, "applied": applied}
	if dl != "" {
		replay["deadlock"] = dl
		c.Violation("", "hang (bubble deadlock): "+what, replay)
		return
	}
	for _, p := range problems {
		c.Violation("", p+" ["+what+"]", replay)
	}
	c.Case(enc.L(enc.I(17), enc.I(kcache.EventBufsiz), enc.I(k), enc.Ints(applied)))
	c.Stat("overflow_entries_lost", k+1-len(applied))
	c.DistinctCase(what)
}
