package main

import (
	"sync/atomic"
	"fmt"
	"math/rand"
	"time"

	"verifharness/enc"
	"verifharness/fakeapi"
	. "verifharness/kobj"
	"verifharness/sched"

	"github.com/boz/kcache"
)

// bufferScenario: a seeded sequence of {publish, subscribe, consumer i takes
// one event} on a real publisher (the controller, or a clone of it), with
// bursts beyond EventBufsiz and consumers that drain only partly.  What each
// consumer received is compared with the extracted Pipeline.prun on the same
// operations: a subscription loses exactly the events that found its buffer
// full, no more; a closed subscription receives what was published before its
// close and its siblings are unaffected.
func bufferScenario(c *Ctx, seed int64, onClone bool, level int) {
	var problems []string
	var ops []enc.T
	var received [][]int
	nclosed := 0
	what := fmt.Sprintf("publish/subscribe/take sequence with bursts beyond the buffer and partial draining (seed %d, on a clone: %v)", seed, onClone)
	c.Now(what)
	dl := sched.Bubble(c.T, func() {
		rng := rand.New(rand.NewSource(seed))
		srv := fakeapi.New()
		ct := newCtlWith(srv, seed, level, 1000000*time.Second, nil)
		defer func() {
			ct.pert.SetLevel(0)
			ct.c.Close()
			sched.Settle()
		}()
		ct.pert.Barrier()
		var pub kcache.Publisher = ct.c
		if onClone {
			cl, err := ct.c.Clone()
			if err != nil {
				problems = append(problems, "Clone failed: "+err.Error())
				return
			}
			pub = cl
			ct.pert.Barrier()
		}
		var subs []kcache.Subscription
		take := func(i int) {
			ops = append(ops, enc.L(enc.I(2), enc.I(i)))
			select {
			case ev, ok := <-subs[i].Events():
				if ok {
					received[i] = append(received[i], ID(ev.Resource()))
				}
			default:
			}
		}
		publish := func(n int) {
			for k := 0; k < n; k++ {
				o := srv.Set(1+rng.Intn(2), 1+rng.Intn(3), labSets[rng.Intn(3)], 1)
				ops = append(ops, enc.L(enc.I(0), enc.I(o.ID)))
				if k%20 == 19 {
					ct.pert.Barrier()
				}
			}
			ct.pert.Barrier()
		}
		closed := map[int]bool{}
		steps := 25 + rng.Intn(25)
		for s := 0; s < steps; s++ {
			switch x := rng.Intn(10); {
			case x < 2 && len(subs) < 4 || len(subs) == 0:
				sub, err := pub.Subscribe()
				if err != nil {
					problems = append(problems, "Subscribe failed: "+err.Error())
					return
				}
				ct.pert.Barrier()
				subs = append(subs, sub)
				received = append(received, []int{})
				ops = append(ops, enc.L(enc.I(1)))
			case x < 6:
				publish([]int{1, 3, 30, 70, 130}[rng.Intn(5)])
			case x == 6 && len(subs) > 1:
				// a consumer closes its subscription (what it has buffered stays receivable)
				i := rng.Intn(len(subs))
				if !closed[i] {
					closed[i] = true
					nclosed++
					subs[i].Close()
					ct.pert.Barrier()
					ops = append(ops, enc.L(enc.I(3), enc.I(i)))
				}
			default:
				i := rng.Intn(len(subs))
				n := []int{1, 10, 40, 100, 250}[rng.Intn(5)]
				for k := 0; k < n; k++ {
					take(i)
				}
			}
		}
		// everything still queued is received at the end
		for i := range subs {
			for k := 0; k < 100; k++ {
				take(i)
			}
		}
	})
	c.Rep.Evaluations++
	replay := map[string]interface{}{"scenario": what, "seed": seed, "on_clone": onClone}
	if dl != "" {
		replay["deadlock"] = dl
		c.Violation("", "hang (bubble deadlock): "+what, replay)
		return
	}
	for _, p := range problems {
		c.Violation("", p, replay)
	}
	rs := make([]enc.T, len(received))
	total := 0
	for i, r := range received {
		rs[i] = enc.Ints(r)
		total += len(r)
	}
	c.Case(enc.L(enc.I(16), enc.I(kcache.EventBufsiz), enc.L(ops...), enc.L(rs...)))
	c.Stat("buffer_ops", len(ops))
	c.Stat("buffer_closes", nclosed)
	c.Stat("buffer_events_received", total)
	if len(received) >= 2 {
		c.DistinctCase(what)
	}
}

func bufferScenarios(c *Ctx, quick, thorough int) {
	n := quick
	if !c.Quick() {
		n = thorough
	}
	for i := 0; i < n; i++ {
		bufferScenario(c, c.Seed*1000+600+int64(i), i%2 == 1, i%3)
	}
}

// stalledRefilter: the consumer of a directly-read filtered subscription
// stalls with its buffer partly used; a Refilter whose differences exceed the
// free slots must not block: it returns, the cache follows the new filter and
// later events, a further Refilter returns too, and Close still works.
func stalledRefilter(c *Ctx, i int) {
	var problems []string
	deferred := i%2 == 1
	what := fmt.Sprintf("Refilter producing more events than the stalled consumer's buffer has free slots (deferred filter: %v)", deferred)
	c.Now(what)
	fam := filterFamily()
	dl := treeBubble(c, c.Seed*1000+650+int64(i), i%3, nil, func(t *tree, srv *fakeapi.Server) {
		// 80 objects with label {1:2}, 10 with {1:1}
		for k := 0; k < 80; k++ {
			srv.Set(1, 10+k, labSets[2], 1)
		}
		for k := 0; k < 10; k++ {
			srv.Set(2, 10+k, labSets[1], 1)
		}
		t.ct.pert.Barrier()
		var nd *node
		if deferred {
			nd, _ = t.add(t.root, nDSub, nil)
			if nd != nil {
				t.refilter(nd, fam[2])
			}
		} else {
			nd, _ = t.add(t.root, nFSub, fam[2])
		}
		if nd == nil {
			problems = append(problems, "creating the filtered subscription failed")
			return
		}
		t.ct.pert.Barrier()
		nd.setStall(true)
		// 60 accepted events sit unread in its buffer
		for k := 0; k < 60; k++ {
			srv.Set(2, 10+k%10, labSets[1], 1)
			if k%20 == 19 {
				t.ct.pert.Barrier()
			}
		}
		t.ct.pert.Barrier()
		check := func(stage string) {
			got, err := cacheIDs(nd.cache())
			exp := t.expectedIDs(nd, srv.Objects())
			if err != nil || !sameInts(got, exp) {
				problems = append(problems, fmt.Sprintf("%s: the cache of %s holds %v (err %v), its filter applied to the server content gives %v", stage, nd.name(), got, err, exp))
			}
		}
		check("before the Refilter")
		refilter := func(f *Filt, stage string) {
			done := make(chan struct{})
			go func() { t.refilter(nd, f); close(done) }()
			t.ct.pert.Barrier()
			if !isClosed(done) {
				problems = append(problems, stage+": Refilter() blocks behind the stalled consumer")
			}
			check(stage)
		}
		backlog := len(nd.sub.Events())
		refilter(fam[3], "after a Refilter with 90 differences") // 10 deletes + 80 creates
		// the stalled consumer loses only what does not fit: its buffer is now
		// full (backlog + 90 differences is more than it holds), not left at the
		// old backlog with the whole delta gone
		if backlog+90 >= kcache.EventBufsiz {
			if n := len(nd.sub.Events()); n != kcache.EventBufsiz {
				problems = append(problems, fmt.Sprintf("a consumer with %d unread events and a Refilter delta of 90 holds %d events afterwards; its buffer has room for %d (it loses only what does not fit)", backlog, n, kcache.EventBufsiz))
			}
		}
		srv.Set(1, 10, labSets[1], 1)
		srv.Set(2, 10, labSets[2], 1)
		t.ct.pert.Barrier()
		check("after two further changes")
		refilter(fam[2], "after a second Refilter")
	})
	c.Rep.Evaluations++
	replay := map[string]interface{}{"scenario": what}
	if dl != "" {
		replay["deadlock"] = dl
		c.Violation("", "hang (bubble deadlock): "+what, replay)
	}
	for _, p := range problems {
		c.Violation("", p+" ["+what+"]", replay)
	}
	c.DistinctCase(what)
}

// bigBatches: batches of more than EventBufsiz events that the LIBRARY emits
// in one go — the difference of a relist, the delta of a Refilter — towards a
// consumer that reads as fast as it can.  The consumer's own backlog stays
// small; what is lost is lost in the library's internal hops (the controller's
// root subscription, the filtered node's own output), which push without
// waiting into buffers of EventBufsiz.  Known findings (see known-findings.txt
// and DESIGN 0.3): reported as such, with the numbers of this run.
func bigBatches(c *Ctx, pid string) {
	n := 1500
	what := fmt.Sprintf("a relist that finds %d new objects (the watch never connects), towards a subscriber that reads as fast as it can; then a Refilter that admits them all", n)
	c.Now(what)
	var relistGot, relistCache, refilterGot, refilterCache, maxBacklog int
	var problems []string
	dl := sched.Bubble(c.T, func() {
		srv := fakeapi.New()
		srv.WatchBehave = func(n int, rv string) string { return fakeapi.ConnectError(n) }
		ct := newCtlWith(srv, c.Seed, 0, 2*time.Second, nil)
		defer func() {
			ct.c.Close()
			sched.Settle()
		}()
		sched.Settle()
		if !isClosed(ct.c.Ready()) {
			problems = append(problems, "not ready")
			return
		}
		sub, err := ct.c.Subscribe()
		if err != nil {
			problems = append(problems, "Subscribe failed")
			return
		}
		var got atomic.Int64
		go func() {
			for range sub.Events() {
				if b := len(sub.Events()); b > maxBacklog {
					maxBacklog = b
				}
				got.Add(1)
			}
		}()
		// a filtered subscription that holds nothing yet (accept-none), read as fast as possible too
		fs, err := ct.c.SubscribeWithFilter((&Filt{Tag: FAll}).Go())
		if err != nil {
			problems = append(problems, "SubscribeWithFilter failed")
			return
		}
		var fgot atomic.Int64
		go func() {
			for range fs.Events() {
				fgot.Add(1)
			}
		}()
		sched.Settle()
		for k := 0; k < n; k++ {
			srv.Set(1+k%3, 1+k/3, labSets[1], 1)
		}
		time.Sleep(5 * time.Second) // two relists
		sched.Settle()
		l, _ := ct.c.Cache().List()
		relistCache, relistGot = len(l), int(got.Load())
		// the Refilter: everything becomes a member at once
		if err := fs.Refilter((&Filt{Tag: FNull}).Go()); err != nil {
			problems = append(problems, "Refilter failed: "+err.Error())
			return
		}
		time.Sleep(time.Second)
		sched.Settle()
		fl, _ := fs.Cache().List()
		refilterCache, refilterGot = len(fl), int(fgot.Load())
	})
	c.Rep.Evaluations++
	replay := map[string]interface{}{"scenario": what, "relist_events_received": relistGot, "objects_in_cache": relistCache, "max_consumer_backlog": maxBacklog,
		"refilter_creates_received": refilterGot, "objects_in_filtered_cache": refilterCache, "event_buffer": kcache.EventBufsiz}
	if dl != "" {
		replay["deadlock"] = dl
		c.Violation("", "hang (bubble deadlock): "+what, replay)
		return
	}
	for _, p := range problems {
		c.Violation("", p+" ["+what+"]", replay)
	}
	if len(problems) > 0 {
		return
	}
	if relistCache != n {
		c.Violation("", fmt.Sprintf("after the relist the cache holds %d objects, the list had %d", relistCache, n), replay)
	}
	if pid == "C05" && relistGot < relistCache {
		c.KnownFinding("D13-relist-difference-beyond-event-buffer", fmt.Sprintf("a relist that finds more than EventBufsiz (%d) differences publishes only part of them, to every subscriber however fast it reads: %d objects entered the cache, a subscriber whose own backlog never exceeded %d received %d events (lost between the controller and its publisher: the root subscription pushes without waiting)", kcache.EventBufsiz, relistCache, maxBacklog, relistGot), replay)
	}
	if pid == "C07" && refilterCache == n && refilterGot < refilterCache {
		c.KnownFinding("D13-refilter-delta-beyond-event-buffer", fmt.Sprintf("a Refilter whose delta exceeds EventBufsiz (%d) delivers only part of it, also to a consumer that reads as fast as it can: %d objects newly accepted (and cached), %d Create events received", kcache.EventBufsiz, refilterCache, refilterGot), replay)
	}
	if pid == "C07" && refilterCache != n {
		c.Violation("", fmt.Sprintf("after Refilter(accept-all) the filtered subscription's cache holds %d objects, its parent %d", refilterCache, n), replay)
	}
	c.DistinctCase("big-batches")
}

// refilterHop: the tie of RefilterHop.v (sent = the first EventBufsiz events
// of the delta) to filterSubscription.distributeEvents.  A filtered
// subscription that holds nothing (accept-none) over n objects is refiltered
// to accept-all while NOBODY reads its Events(): the delta is n Creates, pushed
// without waiting into outch by the subscription's own goroutine — no other
// goroutine takes part, so what sits in the channel afterwards does not depend
// on the schedule.  The model (runner command 20: RootHop.burst) is asked how
// many that are; which ones they are is the order of a Go map and is compared
// only as "distinct Creates of listed objects".  Sizes straddle the buffer.
func refilterHop(c *Ctx) {
	cap := kcache.EventBufsiz
	for _, n := range []int{1, cap - 1, cap, cap + 1, cap + 37, 2*cap + 1} {
		what := fmt.Sprintf("Refilter accept-none -> accept-all over %d objects, nobody reading Events() meanwhile", n)
		c.Now(what)
		var delta, recv []enc.T
		var cached int
		var problems []string
		dl := sched.Bubble(c.T, func() {
			srv := fakeapi.New()
			for k := 0; k < n; k++ {
				srv.Set(1+k%3, 1+k/3, labSets[1], 1)
			}
			ct := newCtlWith(srv, c.Seed, 0, time.Hour, nil)
			defer func() {
				ct.c.Close()
				sched.Settle()
			}()
			sched.Settle()
			fs, err := ct.c.SubscribeWithFilter((&Filt{Tag: FAll}).Go())
			if err != nil {
				problems = append(problems, "SubscribeWithFilter failed")
				return
			}
			sched.Settle()
			if err := fs.Refilter((&Filt{Tag: FNull}).Go()); err != nil {
				problems = append(problems, "Refilter failed: "+err.Error())
				return
			}
			sched.Settle()
			fl, _ := fs.Cache().List()
			cached = len(fl)
			listed := map[int]bool{}
			for _, o := range fl {
				id := ID(o)
				listed[id] = true
				delta = append(delta, enc.I(id))
			}
			seen := map[int]bool{}
		drain:
			for {
				select {
				case ev, ok := <-fs.Events():
					if !ok {
						problems = append(problems, "Events() closed")
						break drain
					}
					id := ID(ev.Resource())
					switch {
					case ev.Type() != kcache.EventTypeCreate:
						problems = append(problems, fmt.Sprintf("a %v event in the delta of a Refilter that only admits", ev.Type()))
					case !listed[id]:
						problems = append(problems, "a Create for an object that is not in the cache")
					case seen[id]:
						problems = append(problems, "two Creates for one object")
					}
					seen[id] = true
					recv = append(recv, enc.I(id))
				default:
					break drain
				}
			}
		})
		replay := map[string]interface{}{"scenario": what, "objects": n, "cached": cached, "creates_in_channel": len(recv), "event_buffer": cap}
		if dl != "" {
			replay["deadlock"] = dl
			c.Violation("", "hang (bubble deadlock): "+what, replay)
			continue
		}
		for _, p := range problems {
			c.Violation("", p+" ["+what+"]", replay)
		}
		if cached != n {
			c.Violation("", fmt.Sprintf("after Refilter(accept-all) the filtered cache holds %d objects, its parent %d", cached, n), replay)
			continue
		}
		c.Case(enc.L(enc.I(20), enc.I(cap), enc.L(delta...), enc.L(recv...)))
		c.DistinctCase(fmt.Sprintf("refilter-hop-%d", n))
	}
}
