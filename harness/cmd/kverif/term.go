package main

import (
	"context"
	"fmt"
	"math/rand"
	goruntime "runtime"
	"sync"
	"sync/atomic"

	"verifharness/qlog"

	"verifharness/enc"
	. "verifharness/kobj"
	"verifharness/sched"

	"github.com/boz/kcache"
)

// termCorrespondence: a seeded sequence of {Subscribe, Close subscription i,
// Send, Stop} on a hand-driven source publisher; after every call everything
// settles (virtual time) and the harness records the call's result, Done() of
// every subscription, Done() of the publisher and the number of goroutines
// with library frames above the baseline.  The extracted PubTerm.urun runs
// the same calls on the lifetime protocol model (user step, then library
// steps until none is enabled — the states the C12 theorems speak about) and
// the runner compares: results and Done() flags exactly; the goroutine
// inventory where C12 pins it down (model: publisher done and nothing live
// => the implementation is back at the baseline).  No function name is
// looked at.
func termCorrespondence(c *Ctx, seed int64) {
	var ops, obs []enc.T
	var problems []string
	what := fmt.Sprintf("Subscribe/Close/Send/Stop sequence on a source publisher, settled after every call (seed %d)", seed)
	c.Now(what)
	base := sched.LibraryGoroutines()
	nsubs := 0
	stopped := false
	dl := sched.Bubble(c.T, func() {
		rng := rand.New(rand.NewSource(seed))
		ctx, cancel := context.WithCancel(context.Background())
		defer cancel()
		pert := sched.NewPerturb(seed, int(seed%3))
		src := kcache.NewVerifSource(ctx, pert.Log(), (&Filt{Tag: FNull}).Go())
		src.MakeReady()
		sched.Settle()
		var subs []kcache.Subscription
		b2i := func(b bool) int {
			if b {
				return 1
			}
			return 0
		}
		record := func(ok bool) {
			sched.Settle()
			var dones []enc.T
			for _, s := range subs {
				dones = append(dones, enc.I(b2i(isClosed(s.Done()))))
			}
			obs = append(obs, enc.L(enc.I(b2i(ok)), enc.L(dones...), enc.I(b2i(isClosed(src.Done()))), enc.I(sched.LibraryGoroutines()-base)))
		}
		steps := 6 + rng.Intn(14)
		stopAt := rng.Intn(steps + 4) // sometimes never inside the loop
		nev := 0
		for s := 0; s < steps; s++ {
			x := rng.Intn(10)
			switch {
			case s == stopAt:
				ops = append(ops, enc.L(enc.I(3)))
				src.Stop()
				stopped = true
				record(true)
			case x < 4 && len(subs) < 6:
				ops = append(ops, enc.L(enc.I(0)))
				sub, err := src.Subscribe()
				if err == nil {
					subs = append(subs, sub)
					nsubs++
				} else if err != kcache.ErrNotRunning && fmt.Sprint(err) != fmt.Sprint(kcache.ErrNotRunning) {
					problems = append(problems, "Subscribe failed with something other than ErrNotRunning: "+err.Error())
				}
				record(err == nil)
				if err != nil {
					// the model keeps no entry for a refused subscription either
				}
			case x < 7 && len(subs) > 0:
				i := rng.Intn(len(subs))
				ops = append(ops, enc.L(enc.I(1), enc.I(i)))
				subs[i].Close()
				record(true)
			default:
				nev++
				ops = append(ops, enc.L(enc.I(2)))
				err := src.Send(kcache.NewEvent(kcache.EventTypeCreate, (&Obj{ID: nev, Kind: KPod, NS: 1, NM: nev, RV: fmt.Sprint(nev), Spec: SPod}).Go()))
				record(err == nil)
			}
		}
		if !stopped {
			ops = append(ops, enc.L(enc.I(3)))
			src.Stop()
			record(true)
		}
		cancel()
		sched.Settle()
	})
	c.Rep.Evaluations++
	replay := map[string]interface{}{"scenario": what, "seed": seed}
	if dl != "" {
		replay["deadlock"] = dl
		c.Violation("", "hang (bubble deadlock): "+what, replay)
		return
	}
	for _, p := range problems {
		c.Violation("", p, replay)
	}
	c.Case(enc.L(enc.I(18), enc.L(ops...), enc.L(obs...)))
	if nsubs >= 2 {
		c.DistinctCase(fmt.Sprintf("term-%d", seed))
	}
}

// racingCallers: goroutines calling Subscribe() / Clone() / Cache().List() in
// a loop at full speed (real parallelism, no barrier) on a hand-driven source
// that is stopped under them.  Afterwards every call must have returned (a
// result or ErrNotRunning) and whatever was handed out must be shut down: the
// check-then-act window between "is it shutting down?" and "hand over the
// request" is only a few instructions wide, so it takes many rounds to hit.
func racingCallers(c *Ctx, rounds, callers int) {
	what := fmt.Sprintf("%d goroutines calling Subscribe/Clone/List at full speed while the source is stopped under them, %d rounds", callers, rounds)
	c.Now(what)
	var problems []string
	dl := sched.Bubble(c.T, func() {
		for r := 0; r < rounds && len(problems) == 0; r++ {
			ctx, cancel := context.WithCancel(context.Background())
			src := kcache.NewVerifSource(ctx, qlog.Silent(), (&Filt{Tag: FNull}).Go())
			// the source's cache holds one object the whole time: a read that
			// succeeds returns it, also when it races with the shutdown
			held := (&Obj{ID: 1, Kind: KPod, NS: 1, NM: 1, RV: "1", Spec: SPod}).Go()
			src.CacheActor().Update(kcache.NewEvent(kcache.EventTypeCreate, held))
			src.MakeReady()
			var returned atomic.Int64
			var wrongReads atomic.Int64
			var handed sync.Map
			start := make(chan struct{})
			for k := 0; k < callers; k++ {
				k := k
				go func() {
					defer returned.Add(1)
					<-start
					for {
						switch k % 3 {
						case 0:
							s, err := src.Subscribe()
							if err != nil {
								return
							}
							handed.Store(s.Done(), "subscription")
						case 1:
							cl, err := src.Clone()
							if err != nil {
								return
							}
							handed.Store(cl.Done(), "clone")
						default:
							l, err := src.Cache().List()
							if err != nil {
								return
							}
							if len(l) != 1 {
								wrongReads.Add(1)
							}
							if o, err := src.Cache().Get(Str(1), Str(1)); err == nil && o == nil {
								wrongReads.Add(1)
							}
						}
					}
				}()
			}
			close(start)
			for k := 0; k < r%40; k++ {
				goruntime.Gosched()
			}
			if r%2 == 0 {
				src.Stop()
			} else {
				cancel()
				src.Stop()
			}
			sched.Settle()
			if n := wrongReads.Load(); n > 0 {
				problems = append(problems, fmt.Sprintf("%d reads that reported success while the source was stopping did not return the object the cache held the whole time (round %d)", n, r))
			}
			if n := int(returned.Load()); n < callers {
				problems = append(problems, fmt.Sprintf("%d of %d callers of Subscribe()/Clone()/Cache().List() are still blocked after the source stopped and everything settled (round %d)", callers-n, callers, r))
			}
			handed.Range(func(k, v interface{}) bool {
				if !isClosed(k.(<-chan struct{})) {
					problems = append(problems, fmt.Sprintf("a %s handed out while the source was stopping is not shut down (round %d)", v, r))
					return false
				}
				return true
			})
			cancel()
			sched.Settle()
		}
	})
	c.Rep.Evaluations++
	replay := map[string]interface{}{"scenario": what}
	for _, p := range problems {
		c.Violation("", p+" ["+what+"]", replay)
	}
	if dl != "" && len(problems) == 0 {
		replay["deadlock"] = dl
		c.Violation("", "goroutines left blocked (bubble deadlock): "+what, replay)
	}
	c.DistinctCase("racing-callers")
}

// concurrentCloses: Close() of one object called by eight goroutines at the
// same instant (released together, real parallelism), for a monitor, a
// subscription, a filtered subscription and a clone on a hand-driven source,
// many rounds: no panic (a check-then-close in Close() closes a channel twice),
// every caller returns, the object is done, the source keeps running.
func concurrentCloses(c *Ctx, rounds int) {
	what := fmt.Sprintf("Close() of one monitor / subscription / filtered subscription / clone by eight goroutines at the same instant, %d rounds", rounds)
	c.Now(what)
	var problems []string
	dl := sched.Bubble(c.T, func() {
		ctx, cancel := context.WithCancel(context.Background())
		defer cancel()
		src := kcache.NewVerifSource(ctx, qlog.Silent(), (&Filt{Tag: FNull}).Go())
		src.MakeReady()
		for r := 0; r < rounds && len(problems) == 0; r++ {
			type closer struct {
				name  string
				close func()
				done  <-chan struct{}
			}
			var objs []closer
			if m, err := kcache.NewMonitor(src, kcache.BuildHandler().Create()); err == nil {
				objs = append(objs, closer{"monitor", m.Close, m.Done()})
			}
			if s, err := src.Subscribe(); err == nil {
				objs = append(objs, closer{"subscription", s.Close, s.Done()})
			}
			if s, err := src.SubscribeWithFilter((&Filt{Tag: FNull}).Go()); err == nil {
				objs = append(objs, closer{"filtered subscription", s.Close, s.Done()})
			}
			if cl, err := src.Clone(); err == nil {
				objs = append(objs, closer{"clone", cl.Close, cl.Done()})
			}
			if len(objs) != 4 {
				problems = append(problems, "could not create the objects on a running source")
				break
			}
			start := make(chan struct{})
			var wg sync.WaitGroup
			for _, o := range objs {
				for k := 0; k < 8; k++ {
					wg.Add(1)
					go func(o closer) {
						defer wg.Done()
						<-start
						o.close()
					}(o)
				}
			}
			for k := 0; k < r%16; k++ {
				goruntime.Gosched()
			}
			close(start)
			wg.Wait()
			sched.Settle()
			for _, o := range objs {
				if !isClosed(o.done) {
					problems = append(problems, fmt.Sprintf("a %s closed by eight goroutines at once is not done (round %d)", o.name, r))
				}
			}
			if isClosed(src.Done()) {
				problems = append(problems, "closing objects below the source stopped the source")
			}
		}
		src.Stop()
		sched.Settle()
	})
	c.Rep.Evaluations++
	replay := map[string]interface{}{"scenario": what}
	for _, p := range problems {
		c.Violation("", p+" ["+what+"]", replay)
	}
	if dl != "" && len(problems) == 0 {
		replay["deadlock"] = dl
		c.Violation("", "goroutines left blocked (bubble deadlock): "+what, replay)
	}
	c.DistinctCase("concurrent-closes")
}
