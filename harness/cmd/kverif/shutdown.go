package main

import (
	"github.com/boz/kcache/client"
	"verifharness/qlog"
	"runtime"
	"context"
	"errors"
	"fmt"
	"time"

	"verifharness/enc"
	"verifharness/fakeapi"
	. "verifharness/kobj"
	"verifharness/sched"

	"sync"
	"sync/atomic"

	"github.com/boz/kcache"
	"github.com/boz/kcache/filter"
	metav1 "k8s.io/apimachinery/pkg/apis/meta/v1"
)

func init() {
	commands["C11"] = runC11
	commands["C12"] = runC12
}

// buildMixedTree builds a tree mixing all six subscribe/clone forms and
// monitors to depth 4, deterministically from the seed.
func buildMixedTree(c *Ctx, t *tree, size int) {
	fam := filterFamily()
	for i := 0; i < size; i++ {
		pubs := t.publishers()
		p := pubs[c.Rng.Intn(len(pubs))]
		if p.depth >= 3 {
			p = pubs[0]
		}
		kind := []int{nSub, nFSub, nDSub, nClone, nFClone, nDClone, nMonitor, nClone, nFClone}[c.Rng.Intn(9)]
		var f *Filt
		if kind == nFSub || kind == nFClone {
			f = fam[[]int{0, 2, 4, 5}[c.Rng.Intn(4)]]
		}
		n, err := t.add(p, kind, f)
		if err != nil {
			continue
		}
		if n.isDeferred() && c.Rng.Intn(3) > 0 {
			t.refilter(n, fam[[]int{0, 2, 5}[c.Rng.Intn(3)]])
		}
	}
}

func inSubtree(n, root *node) bool {
	for x := n; x != nil; x = x.parent {
		if x == root {
			return true
		}
	}
	return false
}

// apiProbe calls every API of a node from a fresh goroutine and reports the
// calls that have not returned after the system has settled.
func apiProbe(t *tree, n *node) (blocked []string, results map[string]error) {
	results = map[string]error{}
	type res struct {
		name string
		err  error
	}
	ch := make(chan res, 16)
	pending := map[string]bool{}
	call := func(name string, f func() error) {
		pending[name] = true
		go func() { ch <- res{name, f()} }()
	}
	if n.pub != nil {
		call("Subscribe", func() error { _, e := n.pub.Subscribe(); return e })
		call("SubscribeWithFilter", func() error { _, e := n.pub.SubscribeWithFilter((&Filt{Tag: FNull}).Go()); return e })
		call("SubscribeForFilter", func() error { _, e := n.pub.SubscribeForFilter(); return e })
		call("Clone", func() error { _, e := n.pub.Clone(); return e })
		call("CloneWithFilter", func() error { _, e := n.pub.CloneWithFilter((&Filt{Tag: FNull}).Go()); return e })
		call("CloneForFilter", func() error { _, e := n.pub.CloneForFilter(); return e })
	}
	if n.fs != nil {
		call("Refilter", func() error { return n.fs.Refilter((&Filt{Tag: FNull}).Go()) })
	}
	if cr := n.cache(); cr != nil {
		call("Cache.List", func() error { _, e := cr.List(); return e })
		call("Cache.Get", func() error { _, e := cr.Get("aa", "aa"); return e })
	}
	switch {
	case n.mon != nil:
		call("Error", n.mon.Error)
	case n.ctl != nil:
		call("Error", n.ctl.Error)
	case n.sub != nil:
		call("Error", n.sub.Error)
	}
	call("Close", func() error { n.close(); return nil })
	sched.Settle()
	time.Sleep(time.Millisecond)
	sched.Settle()
	for {
		select {
		case r := <-ch:
			delete(pending, r.name)
			results[r.name] = r.err
			continue
		default:
		}
		break
	}
	for name := range pending {
		blocked = append(blocked, name)
	}
	return
}

type shutRun struct {
	seed      int64
	level     int
	size      int
	victim    int    // index into the node list (0 = the controller)
	mechanism string // close, close-x3, cancel, list-error
	at        int    // workload step at which it fires
	steps     int
	deadlock  string
	problems  []string
	tree      string
	victimK   string
	leaked    int
	parents   []int
	dones     []bool
	victimIdx int
}

func runShutdown(c *Ctx, r *shutRun, full bool) {
	base := sched.LibraryGoroutines()
	r.deadlock = sched.Bubble(c.T, func() {
		srv := fakeapi.New()
		srv.Set(1, 1, labSets[1], 1)
		srv.Set(1, 2, labSets[0], 1)
		failAt := -1
		srv.ListBehave = func(n int) fakeapi.ListKind {
			if failAt > 0 && n >= failAt {
				return fakeapi.ListErr
			}
			return fakeapi.ListOK
		}
		period := 1000000 * time.Second
		if r.mechanism == "list-error" {
			period = 3 * time.Second
		}
		ct := newCtlWith(srv, r.seed, r.level, period, nil)
		var t *tree
		rootClosed := false
		defer func() {
			ct.pert.SetLevel(0)
			if !rootClosed {
				ct.c.Close()
			} else if !isClosed(ct.c.Done()) {
				// the trigger did not stop the root (already recorded as a
				// problem): stop it by the other means so that the scenario ends
				ct.cancel()
				go ct.c.Close()
			}
			sched.Settle()
			if t != nil {
				for _, n := range t.nodes {
					n.setStall(false)
					n.setHandlerBlock(false)
					if n.readerEnd != nil {
						<-n.readerEnd
					}
				}
			}
		}()
		if r.at > 0 {
			ct.pert.Barrier()
		}
		t = newTree(ct, nil)
		ref, _ := t.add(t.root, nSub, nil)
		buildMixedTree(c, t, r.size)
		r.tree = treeShape(t)
		victim := t.nodes[r.victim%len(t.nodes)]
		if victim == ref {
			victim = t.root
		}
		r.victimK = victim.name()
		fire := func() {
			switch r.mechanism {
			case "close":
				victim.close()
			case "close-x3":
				for i := 0; i < 3; i++ {
					go victim.close()
				}
			case "cancel":
				ct.cancel()
			case "list-error":
				ls, _ := srv.Calls()
				failAt = len(ls) + 1
			}
			markClosed(victim)
		}
		for s := 0; s < r.steps; s++ {
			if s == r.at {
				fire()
			}
			switch c.Rng.Intn(7) {
			case 6:
				// the server drops the watch stream; the watcher reconnects a second later
				srv.CloseStreams()
				time.Sleep(1200 * time.Millisecond)
			case 0:
				ct.pert.Barrier()
			case 1:
				var fl []*node
				for _, nd := range t.nodes {
					if nd.isFiltered() && !nd.closed {
						fl = append(fl, nd)
					}
				}
				if len(fl) > 0 {
					t.refilter(fl[c.Rng.Intn(len(fl))], filterFamily()[c.Rng.Intn(6)])
				}
			default:
				mutate(c, srv)
			}
		}
		if r.at >= r.steps {
			fire()
		}
		if r.mechanism == "list-error" {
			time.Sleep(10 * time.Second)
		}
		time.Sleep(10 * time.Millisecond)
		ct.pert.Barrier()
		rootClosed = victim == t.root
		// for the abstract tree model: parent indices and who is done
		idx := map[*node]int{}
		for i, nd := range t.nodes {
			idx[nd] = i
		}
		for _, nd := range t.nodes {
			pi := -1
			if nd.parent != nil {
				pi = idx[nd.parent]
			}
			r.parents = append(r.parents, pi)
			d := nd.done()
			r.dones = append(r.dones, d != nil && isClosed(d))
		}
		r.victimIdx = idx[victim]
		// C11: everything below the victim is done, its Events channels are closed
		for _, nd := range t.nodes {
			if inSubtree(nd, victim) {
				if d := nd.done(); d != nil && !isClosed(d) {
					r.problems = append(r.problems, fmt.Sprintf("%s is still running although its ancestor %s was closed by %s", nd.name(), victim.name(), r.mechanism))
				}
				if nd.sub != nil {
					nd.mu.Lock()
					cc := nd.closedCh
					nd.mu.Unlock()
					if !cc {
						r.problems = append(r.problems, fmt.Sprintf("the Events() channel of %s was not closed after %s of %s", nd.name(), r.mechanism, victim.name()))
					}
				}
			} else if d := nd.done(); d != nil && isClosed(d) {
				r.problems = append(r.problems, fmt.Sprintf("%s stopped although only %s was closed (shutdown went up or sideways)", nd.name(), victim.name()))
			}
		}
		if victim == t.root {
			if !isClosed(ct.c.Done()) {
				r.problems = append(r.problems, "the controller's Done() is not closed after "+r.mechanism)
			}
			err := ct.c.Error()
			switch r.mechanism {
			case "close", "close-x3":
				if err != nil {
					r.problems = append(r.problems, fmt.Sprintf("a deliberately closed controller reports Error() = %v", err))
				}
			case "list-error":
				if err == nil {
					r.problems = append(r.problems, "a controller stopped by a list error reports no error")
				}
			}
		} else {
			// the rest of the tree keeps working: new events reach the reference
			// subscriber and every running node's cache stays current
			k0 := len(ref.received())
			srv.Set(2, 3, labSets[1], 1)
			srv.Set(1, 1, labSets[2], 1)
			ct.pert.Barrier()
			if len(ref.received()) < k0+2 {
				r.problems = append(r.problems, fmt.Sprintf("after %s of %s the rest of the tree stopped delivering events", r.mechanism, victim.name()))
			}
			objs := srv.Objects()
			for _, nd := range t.nodes {
				if nd.closed || nd.kind == nMonitor || nd.kind == nCtrl || !isClosed(nd.ready()) {
					continue
				}
				got, err := cacheIDs(nd.cache())
				if err != nil {
					r.problems = append(r.problems, fmt.Sprintf("%s (outside the closed subtree) cannot be read: %v", nd.name(), err))
					continue
				}
				if exp := t.expectedIDs(nd, objs); nd.pathSupplied() && !sameInts(got, exp) {
					r.problems = append(r.problems, fmt.Sprintf("%s (outside the closed subtree) is no longer current: %v, expected %v", nd.name(), got, exp))
				}
			}
		}
		if !full {
			return
		}
		// C12: API calls on stopped nodes return instead of blocking
		for _, nd := range t.nodes {
			if !inSubtree(nd, victim) {
				continue
			}
			blocked, results := apiProbe(t, nd)
			for _, b := range blocked {
				r.problems = append(r.problems, fmt.Sprintf("%s.%s blocks after the node was shut down", nd.name(), b))
			}
			for name, err := range results {
				if name == "Close" {
					continue
				}
				if name == "Error" {
					// Error() must return; its value is pinned down (C14) for the
					// controller only and checked there: a descendant that was
					// caught half-way by a deliberate Close may report what it was
					// doing ("parent ready: cache list: Not running")
					continue
				}
				if err != nil && !errors.Is(err, kcache.ErrNotRunning) {
					r.problems = append(r.problems, fmt.Sprintf("%s.%s on a stopped node returned %v, not ErrNotRunning", nd.name(), name, err))
				}
			}
		}
		// a Subscribe / Clone racing with the shutdown: an error, or an object that is itself shut down
		if victim == t.root {
			time.Sleep(time.Millisecond)
			sched.Settle()
		}
	})
	if full {
		// after the bubble: every goroutine the library started is gone
		r.leaked = sched.LibraryGoroutines() - base
	}
}

func shutReport(c *Ctx, r *shutRun, pid string) {
	c.Rep.Evaluations++
	what := fmt.Sprintf("%s of %s at step %d/%d (tree %s)", r.mechanism, r.victimK, r.at, r.steps, r.tree)
	replay := map[string]interface{}{"seed": r.seed, "perturbation": r.level, "mechanism": r.mechanism, "victim": r.victimK, "at_step": r.at, "steps": r.steps, "tree": r.tree}
	if r.deadlock != "" {
		replay["deadlock"] = r.deadlock
		c.Violation("", "hang (bubble deadlock): "+what, replay)
	}
	for _, p := range r.problems {
		c.Violation("", p+" ["+what+"]", replay)
	}
	if r.leaked > 0 && r.deadlock == "" {
		replay["goroutines"] = sched.LibraryStacks()
		c.Violation("", fmt.Sprintf("%d library goroutines are left after everything was shut down [%s]", r.leaked, what), replay)
	}
	c.DistinctCase(what)
	// the abstract tree model: who must be done
	if len(r.parents) > 0 && r.deadlock == "" {
		ds := make([]enc.T, len(r.dones))
		for i, d := range r.dones {
			ds[i] = enc.B(d)
		}
		c.Case(enc.L(enc.I(13), enc.Ints(r.parents), enc.I(r.victimIdx), enc.L(ds...)))
	}
}

func runC11(c *Ctx) {
	sharedClient(c, "C11")
	n := 60
	if !c.Quick() {
		n = 6000
	}
	mechs := []string{"close", "close", "close", "cancel", "list-error", "close-x3"}
	for i := 0; i < n; i++ {
		steps := 6 + c.Rng.Intn(10)
		r := &shutRun{seed: c.Seed*1000 + int64(i), level: i % 3, size: 4 + c.Rng.Intn(9), victim: c.Rng.Intn(14), steps: steps, at: c.Rng.Intn(steps + 2)}
		r.mechanism = mechs[i%len(mechs)]
		if r.mechanism == "cancel" || r.mechanism == "list-error" {
			r.victim = 0
		}
		if i%7 == 0 {
			r.at = 0 // before anything is ready
		}
		c.Now(fmt.Sprintf("shutdown scenario seed=%d size=%d victim=%d mechanism=%s at=%d/%d level=%d", r.seed, r.size, r.victim, r.mechanism, r.at, r.steps, r.level))
		runShutdown(c, r, false)
		shutReport(c, r, "C11")
		if i == 2 {
			c.Sample(map[string]interface{}{"tree": r.tree, "closed": r.victimK, "mechanism": r.mechanism, "at_step": r.at})
		}
	}
	reentrantCloses(c, "C11")
	c.Rep.Rule = "trees mixing Subscribe / SubscribeWithFilter / SubscribeForFilter / Clone / CloneWithFilter / CloneForFilter / monitors to depth 4 on a real controller in virtual time under perturbation; every kind of node as the one being closed; closing moment = every step index of a workload of server changes, Refilters and barriers (including before readiness); mechanisms {Close, 3 concurrent Close, context cancel, fatal list error}. Oracles at the next barrier: every node of the closed subtree has Done() closed and its Events() channel closed; no node outside it is done; the rest of the tree still delivers events and keeps its caches current; Error() is nil for a deliberate close and non-nil for a list error. Plus re-entrant closes: a monitor (on the controller / on a clone) closed from inside its own OnInitialize/OnCreate/OnUpdate/OnDelete callback: Close returns, its Done closes, siblings and publisher keep working, the controller's Close still cascades. Non-trivial = every scenario; distinct by (tree, victim, mechanism, step). Plus two controllers on ONE client.Client with both List calls in flight (held by the server), one of them closed / cancelled meanwhile, at the first list and at a relist: the other becomes (stays) ready, holds the server's content and goes on relisting. Every second fake server hands out an opaque collection resourceVersion (rv-<n>) and takes it back at Watch."
}

func runC12(c *Ctx) {
	refilterAtParentClose(c)
	n := 50
	if !c.Quick() {
		n = 5000
	}
	mechs := []string{"close", "close-x3", "cancel", "list-error", "close"}
	for i := 0; i < n; i++ {
		steps := 5 + c.Rng.Intn(8)
		r := &shutRun{seed: c.Seed*1000 + int64(i), level: i % 3, size: 3 + c.Rng.Intn(8), victim: 0, steps: steps, at: i % (steps + 2)}
		r.mechanism = mechs[i%len(mechs)]
		if i%4 == 3 {
			// a non-root victim first: its API must answer ErrNotRunning
			r.victim = 1 + c.Rng.Intn(10)
			r.mechanism = "close"
		}
		c.Now(fmt.Sprintf("shutdown scenario seed=%d size=%d victim=%d mechanism=%s at=%d/%d level=%d", r.seed, r.size, r.victim, r.mechanism, r.at, r.steps, r.level))
		runShutdown(c, r, true)
		shutReport(c, r, "C12")
		c.Stat("mechanism_"+r.mechanism, 1)
		if i == 1 {
			c.Sample(map[string]interface{}{"tree": r.tree, "closed": r.victimK, "mechanism": r.mechanism, "at_step": r.at, "goroutines_left": r.leaked})
		}
	}
	// mid-relist and mid-reconnect shutdowns, slow lists, hanging watch connects
	midModes := []string{"slow-list", "watch-hangs", "watch-errors", "slow-list+watch-hangs", "stream-dropped", "stream-dropped-twice",
		"list-outlasts-period", "cancel-while-applying-a-list", "close-while-applying-a-list", "client-slow-to-return", "close-held-watcher-in-retry"}
	for i := 0; i < 6*len(midModes); i++ {
		var problems []string
		var stuck string
		base := sched.LibraryGoroutines()
		mode := midModes[i%len(midModes)]
		at := time.Duration(i/len(midModes)) * 700 * time.Millisecond
		c.Now(fmt.Sprintf("Close %v after start with %s", at, mode))
		dl := sched.Bubble(c.T, func() {
			srv := fakeapi.New()
			srv.Set(1, 1, labSets[1], 1)
			if mode == "slow-list" || mode == "slow-list+watch-hangs" {
				srv.ListLatency = func(int) time.Duration { return 1500 * time.Millisecond }
			}
			if mode == "client-slow-to-return" {
				// a list and a watch connect are in flight at the shutdown; both end
				// with their context, but take 50 ms to come back: the root is not
				// done before the goroutines that made these calls have them back
				srv.ListLatency = func(int) time.Duration { return 1500 * time.Millisecond }
				srv.CancelLag = 50 * time.Millisecond
			}
			srv.WatchBehave = func(n int, rv string) string {
				switch mode {
				case "watch-hangs", "slow-list+watch-hangs", "client-slow-to-return":
					return "hang"
				case "watch-errors":
					return fakeapi.ConnectError(n)
				}
				return "ok"
			}
			var ff filter.Filter
			switch mode {
			case "list-outlasts-period":
				// the refresh timer fires (and its tick stays pending) while a list is in flight
				srv.ListLatency = func(int) time.Duration { return 5 * time.Second }
			case "cancel-while-applying-a-list", "close-while-applying-a-list":
				// applying a list takes 3s (2 objects, 1.5s per filter call): the
				// shutdown lands inside the initial sync or inside a relist's sync
				srv.Set(1, 2, labSets[1], 1)
				ff = filter.FN(func(metav1.Object) bool { time.Sleep(1500 * time.Millisecond); return true })
			}
			ct := newCtlWith(srv, c.Seed+int64(i), i%3, 2*time.Second, ff)
			t := newTree(ct, nil)
			t.add(t.root, nSub, nil)
			cl, _ := t.add(t.root, nFClone, filterFamily()[2])
			if cl != nil {
				t.add(cl, nSub, nil)
			}
			t.add(t.root, nMonitor, nil)
			// callers inside Cache().List() / Get() while the shutdown happens:
			// each call returns (content or ErrNotRunning), none stays blocked
			var readersLeft atomic.Int32
			abort := make(chan struct{}) // closed when the scenario has failed: the callers below give up
			aborted := func() bool { return isClosed(abort) }
			var raceMu sync.Mutex
			var raced []<-chan struct{}
			var keepSubs []kcache.Subscription
			var keepClones []kcache.Controller
			for rdr := 0; rdr < 4; rdr++ {
				readersLeft.Add(1)
				go func(rdr int) {
					defer readersLeft.Add(-1)
					for {
						var err error
						if rdr%2 == 0 {
							_, err = ct.c.Cache().List()
						} else {
							_, err = ct.c.Cache().Get(Str(1), Str(1))
						}
						if err != nil || aborted() {
							return
						}
						time.Sleep(time.Millisecond)
					}
				}(rdr)
			}
			// ... and callers of Subscribe / Clone / NewMonitor: a result or ErrNotRunning
			for rdr := 0; rdr < 3; rdr++ {
				readersLeft.Add(1)
				go func(rdr int) {
					defer readersLeft.Add(-1)
					for {
						switch rdr {
						case 0:
							sub, err := ct.c.Subscribe()
							if err != nil {
								return
							}
							// the newest ones are left open: an object obtained while the
							// tree shuts down must itself end up shut down
							raceMu.Lock()
							raced = append(raced, sub.Done())
							if len(keepSubs) >= 2 {
								keepSubs[0].Close()
								keepSubs = keepSubs[1:]
							}
							keepSubs = append(keepSubs, sub)
							raceMu.Unlock()
						case 1:
							cl2, err := ct.c.Clone()
							if err != nil {
								return
							}
							raceMu.Lock()
							raced = append(raced, cl2.Done())
							if len(keepClones) >= 2 {
								keepClones[0].Close()
								keepClones = keepClones[1:]
							}
							keepClones = append(keepClones, cl2)
							raceMu.Unlock()
						default:
							m, err := kcache.NewMonitor(ct.c, kcache.BuildHandler().Create())
							if err != nil {
								return
							}
							m.Close()
						}
						if isClosed(ct.c.Done()) || aborted() {
							return
						}
						time.Sleep(5 * time.Millisecond)
					}
				}(rdr)
			}
			time.Sleep(at)
			var releaseWatcher func()
			if mode == "close-held-watcher-in-retry" {
				// the stream is dropped (retry timer armed, 1 s); Close() is called with
				// the watcher goroutine descheduled at its next log call (its "shutdown
				// request" line) for longer than the retry delay: the timer's callback
				// fires into a watcher that no longer listens
				sched.Settle()
				srv.CloseStreams()
				time.Sleep(300 * time.Millisecond)
				sched.Settle()
				releaseWatcher = ct.pert.Hold("watcher")
			}
			if mode == "stream-dropped" || mode == "stream-dropped-twice" {
				// Close() after the watcher has reconnected (and while it waits to)
				sched.Settle()
				srv.CloseStreams()
				time.Sleep(1300 * time.Millisecond)
				sched.Settle()
				if mode == "stream-dropped-twice" {
					srv.Set(1, 2, labSets[1], 1)
					srv.CloseStreams()
					time.Sleep(400 * time.Millisecond) // inside the retry delay
				}
			}
			inflightAtDone := -1
			go func() {
				<-ct.c.Done()
				inflightAtDone = srv.InFlight()
			}()
			done := make(chan struct{})
			if mode == "cancel-while-applying-a-list" {
				go func() { ct.cancel(); <-ct.c.Done(); close(done) }()
			} else {
				go func() { ct.c.Close(); close(done) }()
			}
			ct.pert.SetLevel(0)
			sched.Settle()
			if releaseWatcher != nil {
				time.Sleep(1500 * time.Millisecond)
				sched.Settle()
				releaseWatcher()
				sched.Settle()
			}
			time.Sleep(time.Millisecond)
			sched.Settle()
			if ff != nil {
				// the list being applied finishes first (virtual time); the
				// controller's select may then pick further ready list results
				// before the shutdown request (Go picks among ready cases at
				// random), each costing another slow sync
				for k := 0; k < 400 && !isClosed(done); k++ {
					time.Sleep(3 * time.Second)
					sched.Settle()
				}
			}
			if mode == "client-slow-to-return" {
				// Close() returns once the client calls are back: 50 ms
				time.Sleep(100 * time.Millisecond)
				sched.Settle()
			}
			if !isClosed(done) {
				stuck = sched.LibraryStacks()
				problems = append(problems, fmt.Sprintf("Close() has not returned (%s, closed %v after start)", mode, at))
			}
			if !isClosed(ct.c.Done()) {
				problems = append(problems, fmt.Sprintf("Done() is not closed (%s, closed %v after start)", mode, at))
			} else {
				if inflightAtDone > 0 {
					problems = append(problems, fmt.Sprintf("when Done() closed, %d List/Watch calls made by the library's goroutines had not returned yet: the root was done before the goroutines it started (%s, closed %v after start)", inflightAtDone, mode, at))
				}
				// every caller's pause between two calls (<= 5ms) is over
				time.Sleep(12 * time.Millisecond)
				sched.Settle()
				raceMu.Lock()
				open := 0
				for _, d := range raced {
					if !isClosed(d) {
						open++
					}
				}
				raceMu.Unlock()
				if open > 0 {
					problems = append(problems, fmt.Sprintf("%d subscriptions / clones obtained from Subscribe() / Clone() while the tree was shutting down are not shut down themselves (%s, closed %v after start)", open, mode, at))
				}
				if n := readersLeft.Load(); n > 0 {
					stuck = sched.LibraryStacks()
					problems = append(problems, fmt.Sprintf("%d callers of Cache().List()/Get()/Subscribe()/Clone()/NewMonitor() are still blocked after Done() closed (%s, closed %v after start)", n, mode, at))
				}
			}
			if len(problems) > 0 {
				// the tree did not shut down: end the scenario (what is still
				// blocked is reported through the bubble's deadlock detection)
				close(abort)
				return
			}
			for _, n := range t.nodes {
				if n.readerEnd != nil {
					<-n.readerEnd
				}
			}
		})
		c.Rep.Evaluations++
		what := fmt.Sprintf("Close %v after start with %s", at, mode)
		replay := map[string]interface{}{"scenario": what}
		if stuck != "" {
			replay["goroutines_when_close_had_not_returned"] = stuck
		}
		if dl != "" {
			replay["deadlock"] = dl
			c.Violation("", "hang (bubble deadlock): "+what, replay)
		} else if left := sched.LibraryGoroutines() - base; left > 0 {
			replay["goroutines"] = sched.LibraryStacks()
			c.Violation("", fmt.Sprintf("%d library goroutines left after Close(): %s", left, what), replay)
		}
		for _, p := range problems {
			c.Violation("", p, replay)
		}
		c.DistinctCase(what)
		c.Case(enc.L(enc.I(13), enc.I(0)))
	}
	// a controller created with a context that is already cancelled: it never
	// becomes ready, is done at once, leaves nothing behind, and every call on
	// it returns
	for i := 0; i < 3; i++ {
		var problems []string
		what := "a controller created with an already cancelled context"
		c.Now(what)
		base := sched.LibraryGoroutines()
		dl := sched.Bubble(c.T, func() {
			srv := fakeapi.New()
			srv.Set(1, 1, labSets[1], 1)
			if i == 1 {
				srv.ListLatency = func(int) time.Duration { return time.Second }
			}
			ctx, cancel := context.WithCancel(context.Background())
			cancel()
			pert := sched.NewPerturb(c.Seed+int64(i), i)
			b := kcache.NewBuilder().Context(ctx).Log(pert.Log()).Client(client.NewClient(srv.List, srv.Watch))
			ctl, err := b.Create()
			if err != nil {
				return // refusing to build is fine too
			}
			time.Sleep(3 * time.Second)
			sched.Settle()
			if !isClosed(ctl.Done()) {
				problems = append(problems, "not done 3 s after it was created with a cancelled context")
				ctl.Close()
				sched.Settle()
			}
			if _, err := ctl.Subscribe(); err == nil && !isClosed(ctl.Done()) {
				problems = append(problems, "Subscribe succeeded on it")
			}
			done := make(chan struct{})
			go func() { ctl.Close(); ctl.Cache().List(); close(done) }()
			sched.Settle()
			if !isClosed(done) {
				problems = append(problems, "Close() or Cache().List() blocks on it")
			}
		})
		c.Rep.Evaluations++
		replay := map[string]interface{}{"scenario": what, "variant": i}
		if dl != "" {
			replay["deadlock"] = dl
			c.Violation("", "goroutines left blocked (bubble deadlock): "+what, replay)
		} else if left := sched.LibraryGoroutines() - base; left > 0 {
			replay["goroutines"] = sched.LibraryStacks()
			c.Violation("", fmt.Sprintf("%d library goroutines are left by %s", left, what), replay)
		}
		for _, p := range problems {
			c.Violation("", p+" ["+what+"]", replay)
		}
		c.DistinctCase(fmt.Sprint("precancelled", i))
	}
	// subscriptions opened and closed at full speed (real time, no barriers)
	// while the source publishes without pause: no panic, the publisher still
	// shuts down, and nothing the library started is left behind
	{
		rounds := 1500
		if !c.Quick() {
			rounds = 8000
		}
		var problems []string
		what := fmt.Sprintf("%d subscriptions opened and closed at full speed while the source publishes without pause", rounds)
		c.Now(what)
		base := sched.LibraryGoroutines()
		dl := sched.Bubble(c.T, func() {
			ctx, cancel := context.WithCancel(context.Background())
			defer cancel()
			src := kcache.NewVerifSource(ctx, qlog.Silent(), (&Filt{Tag: FNull}).Go())
			src.MakeReady()
			ev := kcache.NewEvent(kcache.EventTypeCreate, (&Obj{ID: 1, Kind: KPod, NS: 1, NM: 1, RV: "1", Spec: SPod}).Go())
			stop := make(chan struct{})
			senderDone := make(chan struct{})
			go func() {
				defer close(senderDone)
				for {
					select {
					case <-stop:
						return
					default:
					}
					src.Send(ev)
				}
			}()
			for i := 0; i < rounds; i++ {
				sub, err := src.Subscribe()
				if err != nil {
					problems = append(problems, "Subscribe failed on a running source: "+err.Error())
					break
				}
				for k := 0; k < i%32; k++ {
					runtime.Gosched()
				}
				sub.Close()
				<-sub.Done()
				if i%100 == 99 {
					if cl, err := src.Clone(); err == nil {
						s2, _ := cl.Subscribe()
						cl.Close()
						<-cl.Done()
						if s2 != nil {
							<-s2.Done()
						}
					}
				}
			}
			close(stop)
			<-senderDone
			src.Stop()
			sched.Settle()
			if !isClosed(src.Done()) {
				problems = append(problems, "the source publisher is not done after it was stopped")
			}
			cancel()
			sched.Settle()
		})
		c.Rep.Evaluations++
		replay := map[string]interface{}{"scenario": what}
		if dl != "" {
			replay["deadlock"] = dl
			c.Violation("", "hang (bubble deadlock): "+what, replay)
		} else if left := sched.LibraryGoroutines() - base; left > 0 {
			replay["goroutines"] = sched.LibraryStacks()
			c.Violation("", fmt.Sprintf("%d library goroutines are left after the source and everything subscribed to it were shut down: %s", left, what), replay)
		}
		for _, p := range problems {
			c.Violation("", p+" ["+what+"]", replay)
		}
		c.DistinctCase("close-stress")
		c.Case(enc.L(enc.I(13), enc.I(0)))
	}
	// one goroutine of the publisher (or of a subscription) descheduled at
	// its k-th log call, for every k: a subscriber closes, an event is
	// published, the source stops, and only then the goroutine continues.
	// Everything must still shut down and nothing may be left behind.
	for _, cmp := range []string{"publisher", "subscription"} {
		for k := 1; k <= 9; k++ {
			what := fmt.Sprintf("the %d-th log call of a %s goroutine is held while a subscriber closes, an event is published and the source stops", k, cmp)
			c.Now(what)
			var problems []string
			wasHeld := false
			dl := sched.Bubble(c.T, func() {
				ctx, cancel := context.WithCancel(context.Background())
				defer cancel()
				pert := sched.NewPerturb(c.Seed, 0)
				src := kcache.NewVerifSource(ctx, pert.Log(), (&Filt{Tag: FNull}).Go())
				src.MakeReady()
				a, _ := src.Subscribe()
				b, _ := src.Subscribe()
				sched.Settle()
				release, held := pert.HoldNth(cmp, k)
				defer release()
				done := make(chan struct{})
				go func() {
					defer close(done)
					a.Close()
					src.Send(kcache.NewEvent(kcache.EventTypeCreate, (&Obj{ID: 1, Kind: KPod, NS: 1, NM: 1, RV: "1", Spec: SPod}).Go()))
				}()
				sched.Settle()
				src.Stop()
				sched.Settle()
				wasHeld = held()
				release()
				sched.Settle()
				if !isClosed(done) {
					problems = append(problems, "Close of a subscription or Send on the source did not return")
				}
				if !isClosed(src.Done()) {
					problems = append(problems, "the source publisher is not done after it was stopped")
				}
				if !isClosed(a.Done()) || !isClosed(b.Done()) {
					problems = append(problems, "a subscription is not done after its source was stopped")
				}
				cancel()
				sched.Settle()
			})
			c.Rep.Evaluations++
			replay := map[string]interface{}{"scenario": what}
			if dl != "" {
				replay["deadlock"] = dl
				c.Violation("", "goroutines left blocked (bubble deadlock): "+what, replay)
			}
			for _, p := range problems {
				c.Violation("", p+" ["+what+"]", replay)
			}
			if wasHeld {
				c.DistinctCase(fmt.Sprintf("held-%s-%d", cmp, k))
			}
		}
	}
	{
		n := 40
		if !c.Quick() {
			n = 400
		}
		for k := 0; k < n; k++ {
			termCorrespondence(c, c.Seed*1000+int64(k))
		}
	}
	if c.Quick() {
		racingCallers(c, 400, 9)
		concurrentCloses(c, 250)
	} else {
		racingCallers(c, 4000, 9)
		concurrentCloses(c, 2500)
	}
	reentrantCloses(c, "C12")
	c.Rep.Rule = "trees as in C11 on a real controller in virtual time under perturbation; shutdown triggers {Close, 3 concurrent Close, context cancel, list error} fired at every step index of a running workload (shutdown-point enumeration), plus Close swept over time while a list is slow, the watch connect hangs until cancelled or always fails, and after the server dropped the watch stream (after the reconnect, and inside the retry delay), while a list outlasts the refresh period (tick pending), and Close / context cancel while the controller is applying a list (initial and relist; slow filter) (mid-relist / mid-reconnect). Oracles: Close() returns and Done() closes at once in virtual time (synctest's deadlock detection is the oracle for 'does not hang'); after the root is done the inventory of goroutines with library frames is back to its value before the scenario; every API call {Subscribe*, Clone*, Refilter, Cache().List/Get, Close} on every stopped node returns a result or ErrNotRunning instead of blocking. Plus a monitor closed from inside each of its own callbacks (re-entrant Close). Plus one publisher / subscription goroutine descheduled at its k-th log call (k = 1..9, no log text looked at) while a subscriber closes, an event is published and the source stops. Plus the lifetime-protocol correspondence: 40 (400) seeded Subscribe/Close/Send/Stop sequences on a source publisher, settled after every call, compared with the extracted PubTerm.urun (call results, Done() of every subscription and of the publisher, goroutine inventory back at the baseline wherever the model says publisher done and nothing live). Plus 400 (4000) rounds of nine goroutines calling Subscribe/Clone/Cache().List at full speed while the source is stopped under them (every call returns, everything handed out is shut down). Plus 250 (2500) rounds of Close() called by eight goroutines at the same instant on a monitor, a subscription, a filtered subscription and a clone. Plus a real-time stress: 1500 (8000) subscriptions opened and closed at full speed while a hand-driven source publishes without pause (no panic, publisher done, no goroutine left). In the Close sweep seven goroutines call Cache().List()/Get() and Subscribe()/Clone()/NewMonitor() in a loop across the shutdown: none stays blocked, and every subscription / clone they obtained ends up shut down. Non-trivial = every scenario."
}
