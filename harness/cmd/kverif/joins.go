package main

import (
	metav1 "k8s.io/apimachinery/pkg/apis/meta/v1"
	"sync/atomic"
	"context"
	"fmt"
	"time"

	"verifharness/enc"
	"verifharness/fakeapi"
	. "verifharness/kobj"
	"verifharness/sched"

	"github.com/boz/kcache/filter"
	"github.com/boz/kcache/join"
	tdaemonset "github.com/boz/kcache/types/daemonset"
	tdeployment "github.com/boz/kcache/types/deployment"
	tingress "github.com/boz/kcache/types/ingress"
	tjob "github.com/boz/kcache/types/job"
	tpod "github.com/boz/kcache/types/pod"
	treplicaset "github.com/boz/kcache/types/replicaset"
	treplicationcontroller "github.com/boz/kcache/types/replicationcontroller"
	tservice "github.com/boz/kcache/types/service"
	tstatefulset "github.com/boz/kcache/types/statefulset"
)

func init() {
	commands["C09"] = runC09
}

type joinDef struct {
	name             string
	srcKind, dstKind int
	tag              int // model constructor: 12 service, 13 rc, 14 workload, 15 ingress->services
	mk               func(ctx context.Context, src, dst *tctl) (*tctl, error)
	// the same join through its ...With constructor, the filter function
	// wrapped by gated() (see joinHook)
	mkWith func(ctx context.Context, src, dst *tctl) (*tctl, error)
}

// joinHook, when set, runs inside the FIRST call a join makes to its filter
// function (after the function has computed its result from the sources it
// was given): a scenario uses it to change the source and let virtual time pass
// at exactly that point, as a slow filter computation would.
var joinHook func()

// joinSlow, when positive, makes EVERY call of a gated filter function take
// that long (virtual time): a selection function that is slow while the source
// changes quickly, so that the join's monitor falls behind and loses events.
var joinSlow atomic.Int64

// joinSlowAccept, when positive, makes the filters a gated filter function
// returns take that long per Accept (virtual time): the destination node is
// then busy for a while with every Refilter.
var joinSlowAccept atomic.Int64

type slowAccept struct {
	inner filter.ComparableFilter
	d     time.Duration
}

func (s *slowAccept) Accept(o metav1.Object) bool {
	time.Sleep(s.d)
	return s.inner.Accept(o)
}

func (s *slowAccept) Equals(other filter.Filter) bool {
	if o, ok := other.(*slowAccept); ok {
		return s.inner.Equals(o.inner)
	}
	return s.inner.Equals(other)
}

func gated[T any](base func(...T) filter.ComparableFilter) func(...T) filter.ComparableFilter {
	var first atomic.Bool
	return func(xs ...T) filter.ComparableFilter {
		f := base(xs...)
		if h := joinHook; h != nil && first.CompareAndSwap(false, true) {
			h()
		}
		if d := joinSlow.Load(); d > 0 {
			time.Sleep(time.Duration(d))
		}
		if d := joinSlowAccept.Load(); d > 0 {
			return &slowAccept{f, time.Duration(d)}
		}
		return f
	}
}

var joinDefs = []joinDef{
	{"ServicePods", KService, KPod, 12, func(ctx context.Context, s, d *tctl) (*tctl, error) {
		c, err := join.ServicePods(ctx, s.raw.(tservice.Controller), d.raw.(tpod.Controller))
		if err != nil {
			return nil, err
		}
		return wrap_pod(c), nil
	}, func(ctx context.Context, s, d *tctl) (*tctl, error) {
		c, err := join.ServicePodsWith(ctx, s.raw.(tservice.Controller), d.raw.(tpod.Controller), gated(tservice.PodsFilter))
		if err != nil {
			return nil, err
		}
		return wrap_pod(c), nil
	}},
	{"RCPods", KRC, KPod, 13, func(ctx context.Context, s, d *tctl) (*tctl, error) {
		c, err := join.RCPods(ctx, s.raw.(treplicationcontroller.Controller), d.raw.(tpod.Controller))
		if err != nil {
			return nil, err
		}
		return wrap_pod(c), nil
	}, func(ctx context.Context, s, d *tctl) (*tctl, error) {
		c, err := join.RCPodsWith(ctx, s.raw.(treplicationcontroller.Controller), d.raw.(tpod.Controller), gated(treplicationcontroller.PodsFilter))
		if err != nil {
			return nil, err
		}
		return wrap_pod(c), nil
	}},
	{"RSPods", KRS, KPod, 14, func(ctx context.Context, s, d *tctl) (*tctl, error) {
		c, err := join.RSPods(ctx, s.raw.(treplicaset.Controller), d.raw.(tpod.Controller))
		if err != nil {
			return nil, err
		}
		return wrap_pod(c), nil
	}, func(ctx context.Context, s, d *tctl) (*tctl, error) {
		c, err := join.RSPodsWith(ctx, s.raw.(treplicaset.Controller), d.raw.(tpod.Controller), gated(treplicaset.PodsFilter))
		if err != nil {
			return nil, err
		}
		return wrap_pod(c), nil
	}},
	{"DeploymentPods", KDeployment, KPod, 14, func(ctx context.Context, s, d *tctl) (*tctl, error) {
		c, err := join.DeploymentPods(ctx, s.raw.(tdeployment.Controller), d.raw.(tpod.Controller))
		if err != nil {
			return nil, err
		}
		return wrap_pod(c), nil
	}, func(ctx context.Context, s, d *tctl) (*tctl, error) {
		c, err := join.DeploymentPodsWith(ctx, s.raw.(tdeployment.Controller), d.raw.(tpod.Controller), gated(tdeployment.PodsFilter))
		if err != nil {
			return nil, err
		}
		return wrap_pod(c), nil
	}},
	{"StatefulSetPods", KStatefulSet, KPod, 14, func(ctx context.Context, s, d *tctl) (*tctl, error) {
		c, err := join.StatefulSetPods(ctx, s.raw.(tstatefulset.Controller), d.raw.(tpod.Controller))
		if err != nil {
			return nil, err
		}
		return wrap_pod(c), nil
	}, func(ctx context.Context, s, d *tctl) (*tctl, error) {
		c, err := join.StatefulSetPodsWith(ctx, s.raw.(tstatefulset.Controller), d.raw.(tpod.Controller), gated(tstatefulset.PodsFilter))
		if err != nil {
			return nil, err
		}
		return wrap_pod(c), nil
	}},
	{"JobPods", KJob, KPod, 14, func(ctx context.Context, s, d *tctl) (*tctl, error) {
		c, err := join.JobPods(ctx, s.raw.(tjob.Controller), d.raw.(tpod.Controller))
		if err != nil {
			return nil, err
		}
		return wrap_pod(c), nil
	}, func(ctx context.Context, s, d *tctl) (*tctl, error) {
		c, err := join.JobPodsWith(ctx, s.raw.(tjob.Controller), d.raw.(tpod.Controller), gated(tjob.PodsFilter))
		if err != nil {
			return nil, err
		}
		return wrap_pod(c), nil
	}},
	{"DaemonSetPods", KDaemonSet, KPod, 14, func(ctx context.Context, s, d *tctl) (*tctl, error) {
		c, err := join.DaemonSetPods(ctx, s.raw.(tdaemonset.Controller), d.raw.(tpod.Controller))
		if err != nil {
			return nil, err
		}
		return wrap_pod(c), nil
	}, func(ctx context.Context, s, d *tctl) (*tctl, error) {
		c, err := join.DaemonSetPodsWith(ctx, s.raw.(tdaemonset.Controller), d.raw.(tpod.Controller), gated(tdaemonset.PodsFilter))
		if err != nil {
			return nil, err
		}
		return wrap_pod(c), nil
	}},
	{"IngressServices", KIngress, KService, 15, func(ctx context.Context, s, d *tctl) (*tctl, error) {
		c, err := join.IngressServices(ctx, s.raw.(tingress.Controller), d.raw.(tservice.Controller))
		if err != nil {
			return nil, err
		}
		return wrap_service(c), nil
	}, func(ctx context.Context, s, d *tctl) (*tctl, error) {
		c, err := join.IngressServicesWith(ctx, s.raw.(tingress.Controller), d.raw.(tservice.Controller), gated(tingress.ServicesFilter))
		if err != nil {
			return nil, err
		}
		return wrap_service(c), nil
	}},
}

func pkgOf(kind int) typedPkg {
	for _, p := range typedPkgs {
		if p.kind == kind {
			return p
		}
	}
	panic("no typed package for kind")
}

// the selection rule of a join, written directly (C19's ownership predicate)
func joinSelects(tag int, srcs []*Obj, d *Obj, nsScoped bool) bool {
	for _, w := range srcs {
		if nsScoped && w.NS != d.NS {
			continue
		}
		switch tag {
		case 15:
			if w.Backend == d.NM && w.Backend != 0 {
				return true
			}
			for _, p := range w.Paths {
				if p != 0 && p == d.NM {
					return true
				}
			}
		default:
			if refSelects(w, d) {
				return true
			}
		}
	}
	return false
}

func joinExpected(tag int, srcs, dsts []*Obj, nsScoped bool) []int {
	var r []*Obj
	for _, d := range dsts {
		if joinSelects(tag, srcs, d, nsScoped) {
			r = append(r, d)
		}
	}
	return objIDs(r)
}

func runC09(c *Ctx) {
	reps := 2
	if !c.Quick() {
		reps = 160
	}
	runs := 0
	for rep := 0; rep < reps; rep++ {
		for _, jd := range joinDefs {
			seed := c.Seed*100 + int64(runs)
			var problems []string
			var cases []enc.T
			var known []string
			var sample map[string]interface{}
			slowSrc := rep%3 == 1
			slowDst := (rep+len(jd.name))%3 == 2 // the destination's first list is still in flight while the source changes
			emptySrc := (rep+len(jd.name))%2 == 1 // no source object exists when the join is first created
			dl := sched.Bubble(c.T, func() {
				srcSrv, dstSrv := fakeapi.New(), fakeapi.New()
				srcSrv.Kind, dstSrv.Kind = jd.srcKind, jd.dstKind
				if slowSrc {
					srcSrv.ListLatency = func(int) time.Duration { return 5 * time.Second }
				}
				if slowDst {
					dstSrv.ListLatency = func(int) time.Duration { return 5 * time.Second }
				}
				if !emptySrc {
					srcSrv.Put(proto(jd.srcKind, 1, 1, 0))
				}
				for i := 0; i < 4; i++ {
					dstSrv.Put(proto(jd.dstKind, 1+i%2, 1+i, i))
				}
				pert := sched.NewPerturb(seed, rep%3)
				ctx, cancel := context.WithCancel(context.Background())
				defer cancel()
				src, err1 := pkgOf(jd.srcKind).build(ctx, pert.Log(), fakeClient(srcSrv))
				dst, err2 := pkgOf(jd.dstKind).build(ctx, pert.Log(), fakeClient(dstSrv))
				if err1 != nil || err2 != nil {
					problems = append(problems, "building the base controllers failed")
					return
				}
				var subs []*tsub
				defer func() {
					pert.SetLevel(0)
					src.closeFn()
					dst.closeFn()
					sched.Settle()
					for _, s := range subs {
						<-s.end
					}
				}()
				pert.Barrier()
				// goroutine inventory: the reference count is taken when the base
				// controllers are quiet (ready, no list in flight).  With a slow first
				// list that is not yet the case here (a list call in flight is later
				// replaced by a watch session: their number of helper goroutines is
				// nobody's business), so the reference is then the count after the
				// first cycle's close: a leak per cycle still shows as growth.
				base := sched.LibraryGoroutines()
				baseValid := isClosed(src.ready()) && isClosed(dst.ready())
				for cycle := 0; cycle < 3; cycle++ {
					// the constructor's context only carries the logger: ending it
					// after construction (odd cycles) changes nothing
					jctx, jcancel := context.WithCancel(ctx)
					defer jcancel()
					mk := jd.mk
					if cycle == 2 {
						// the join computes its first filter slowly (50ms) while the source
						// changes: whatever it installs from the stale sources must not be
						// what it ends up with
						mk = jd.mkWith
						joinHook = func() {
							srcSrv.Put(proto(jd.srcKind, 2, 2, 2))
							srcSrv.Put(proto(jd.srcKind, 1, 1, 0))
							time.Sleep(50 * time.Millisecond)
						}
					}
					j, err := mk(jctx, src, dst)
					joinHookDone := func() { joinHook = nil }
					defer joinHookDone()
					if cycle == 2 {
						time.Sleep(60 * time.Millisecond) // the slow first filter computation
					}
					if err != nil {
						problems = append(problems, "creating the join failed: "+err.Error())
						return
					}
					// in the second cycle a second join of the same kind lives on the same
					// two base controllers: each is closed on its own
					var j2 *tctl
					if cycle == 1 {
						j2, err = jd.mk(ctx, src, dst)
						if err != nil {
							problems = append(problems, "creating a second join over the same base controllers failed: "+err.Error())
							return
						}
					}
					if cycle%2 == 1 {
						jcancel()
					}
					js, err := j.subscribe()
					if err == nil {
						subs = append(subs, js)
					}
					// the source changes (a new source object that selects, the old one
					// re-targeted) while the destination is not ready yet
					if slowDst && cycle == 0 {
						pert.Barrier()
						if !isClosed(dst.ready()) && isClosed(j.ready()) {
							problems = append(problems, "the join is ready although its destination is not")
						}
						srcSrv.Put(proto(jd.srcKind, 1, 1, 2))
						srcSrv.Put(proto(jd.srcKind, 2, 2, 1))
						pert.Barrier()
						time.Sleep(6 * time.Second)
					}
					// ready only after source and destination are ready
					if slowSrc && cycle == 0 {
						pert.Barrier()
						if !isClosed(src.ready()) && isClosed(j.ready()) {
							problems = append(problems, "the join is ready although its source is not")
						}
						time.Sleep(6 * time.Second)
					}
					pert.Barrier()
					if !isClosed(j.ready()) {
						problems = append(problems, "the join is not ready although source and destination are")
					}
					verify := func(stage string) {
						pert.Barrier()
						rememberLog(srcSrv)
						rememberLog(dstSrv)
						got, err := j.listIDs()
						if err != nil {
							problems = append(problems, stage+": join cache read failed: "+err.Error())
							return
						}
						srcs, dsts := srcSrv.Objects(), dstSrv.Objects()
						want := joinExpected(jd.tag, srcs, dsts, true)
						if !sameInts(got, want) {
							loose := joinExpected(jd.tag, srcs, dsts, false)
							if jd.tag == 13 && sameInts(got, loose) {
								known = append(known, fmt.Sprintf("%s: RCPods holds %v; with namespace scoping it would be %v", stage, got, want))
							} else {
								problems = append(problems, fmt.Sprintf("%s: the join holds %v; the destination objects selected by a current source object are %v", stage, got, want))
							}
						}
						cases = append(cases, enc.L(enc.I(14), enc.I(jd.tag), EncObjs(srcs), EncObjs(dsts), enc.Ints(got)))
						if j2 != nil {
							if got2, err := j2.listIDs(); err != nil || !sameInts(got2, got) {
								problems = append(problems, fmt.Sprintf("%s: two joins of one kind over the same base controllers differ: %v and %v (%v)", stage, got, got2, err))
							}
						}
					}
					verify(fmt.Sprintf("cycle %d after creation", cycle))
					if cycle == 2 {
						// 134 source changes while every evaluation of the selection function
						// takes 20 ms: the join's monitor loses what does not fit its buffer;
						// once the source is quiet the join still selects by what the source
						// holds NOW (the last four changes decide it)
						joinSlow.Store(int64(20 * time.Millisecond))
						for k := 0; k < 130; k++ {
							srcSrv.Put(proto(jd.srcKind, 1+k%2, 1+(k/2)%2, k%2))
							if k%20 == 19 {
								// the source controller itself keeps up (no virtual time passes:
								// the selection function stays asleep)
								pert.Barrier()
							}
						}
						pert.Barrier()
						for ns := 1; ns <= 2; ns++ {
							for nm := 1; nm <= 2; nm++ {
								srcSrv.Put(proto(jd.srcKind, ns, nm, 2))
							}
						}
						time.Sleep(6 * time.Second)
						joinSlow.Store(0)
						verify("cycle 2 after a burst of source changes against a slow selection function")
						// two source changes 100 ms apart while every Accept of the selection
						// filter takes 300 ms: the second Refilter reaches a destination node
						// that is busy for seconds; it is the second change that counts
						joinSlowAccept.Store(int64(300 * time.Millisecond))
						srcSrv.Put(proto(jd.srcKind, 1, 1, 1))
						time.Sleep(100 * time.Millisecond)
						srcSrv.Put(proto(jd.srcKind, 1, 1, 2))
						time.Sleep(30 * time.Second)
						verifySlow := func(stage string) {
							// (the installed filter is still the slow one: give it its time)
							time.Sleep(30 * time.Second)
							verify(stage)
						}
						verifySlow("cycle 2 after two quick source changes against a destination node busy with a slow filter")
						// back to filters that take no time: the selection changes and changes
						// back, so that the slow filter object is replaced
						joinSlowAccept.Store(0)
						srcSrv.Put(proto(jd.srcKind, 1, 1, 1)) // (variant 1 selects differently from variant 2 for every source kind)
						time.Sleep(30 * time.Second)
						srcSrv.Put(proto(jd.srcKind, 1, 1, 2))
						time.Sleep(30 * time.Second)
						verify("cycle 2 after the slow filter was replaced")
					}
					steps := 6 + c.Rng.Intn(8)
					for s := 0; s < steps; s++ {
						switch x := c.Rng.Intn(9); {
						case x < 3:
							srcSrv.Put(proto(jd.srcKind, 1+c.Rng.Intn(2), 1+c.Rng.Intn(2), c.Rng.Intn(6)))
						case x == 3:
							srcSrv.Delete(1+c.Rng.Intn(2), 1+c.Rng.Intn(2))
						case x < 7:
							dstSrv.Put(proto(jd.dstKind, 1+c.Rng.Intn(2), 1+c.Rng.Intn(4), c.Rng.Intn(6)))
						case x == 7:
							dstSrv.Delete(1+c.Rng.Intn(2), 1+c.Rng.Intn(4))
						default:
							verify(fmt.Sprintf("cycle %d step %d", cycle, s))
						}
					}
					verify(fmt.Sprintf("cycle %d final", cycle))
					// every source turns into one that selects nothing / something else,
					// one at a time (a service loses its selector, a workload changes it,
					// an ingress drops its backends)
					for _, so := range srcSrv.Objects() {
						np := proto(jd.srcKind, so.NS, so.NM, 0)
						switch jd.srcKind {
						case KService:
							np.Sel = nil
						case KIngress:
							np.Backend, np.Paths = 0, nil
						case KRC:
							np.Sel = Map{{2, 3}}
						default:
							np.LSel = &LSel{Labels: Map{{2, 3}}}
						}
						srcSrv.Put(np)
						verify(fmt.Sprintf("cycle %d source (%d,%d) stops selecting", cycle, so.NS, so.NM))
					}
					srcSrv.Put(proto(jd.srcKind, 1, 1, 1))
					verify(fmt.Sprintf("cycle %d a source selects again", cycle))
					// ... enters graceful deletion (a deletionTimestamp, held by a finalizer)
					// and changes what it selects while terminating: it is still a current
					// source object
					for _, v := range []int{2, 1} {
						tp := proto(jd.srcKind, 1, 1, v)
						tp.Terminating = true
						srcSrv.Put(tp)
						verify(fmt.Sprintf("cycle %d a terminating source changes its selection (variant %d)", cycle, v))
					}
					// ... is deleted, and comes back exactly as it was
					srcSrv.Delete(1, 1)
					verify(fmt.Sprintf("cycle %d the selecting source is deleted", cycle))
					srcSrv.Put(proto(jd.srcKind, 1, 1, 1))
					verify(fmt.Sprintf("cycle %d the source is re-created with the same selection", cycle))
					// its events are a well-formed delta of its cache: replayed from empty they give the cache
					if js != nil {
						evs := js.received()
						seen := map[int]bool{}
						for _, e := range evs {
							switch e[0] {
							case 0, 1:
								seen[e[1]] = true
							case 2:
							}
						}
						_ = seen
					}
					// closing the join result stops everything the join created, nothing else
					j.closeFn()
					pert.Barrier()
					time.Sleep(time.Millisecond)
					sched.Settle()
					if !isClosed(j.done()) {
						problems = append(problems, "the join result is not done after Close()")
					}
					if j2 != nil {
						// the sibling join goes on
						if isClosed(j2.done()) {
							problems = append(problems, "closing one join stopped a second join over the same base controllers")
						}
						srcSrv.Put(proto(jd.srcKind, 2, 1, 1))
						dstSrv.Put(proto(jd.dstKind, 2, 3, 1))
						pert.Barrier()
						got2, err := j2.listIDs()
						want2 := joinExpected(jd.tag, srcSrv.Objects(), dstSrv.Objects(), true)
						loose2 := joinExpected(jd.tag, srcSrv.Objects(), dstSrv.Objects(), false)
						if err != nil || !(sameInts(got2, want2) || jd.tag == 13 && sameInts(got2, loose2)) {
							problems = append(problems, fmt.Sprintf("after its sibling join was closed the second join holds %v (%v); the destination objects selected by a current source object are %v", got2, err, want2))
						}
						j2.closeFn()
						pert.Barrier()
						time.Sleep(time.Millisecond)
						sched.Settle()
						if !isClosed(j2.done()) {
							problems = append(problems, "the second join is not done after Close()")
						}
					}
					// (the count is taken while no list or watch connect of a base controller
					// is in flight: a periodic relist — cycle 2 lets minutes of virtual time
					// pass — brings helper goroutines of its own for as long as it lasts)
					for k := 0; k < 100 && srcSrv.InFlight()+dstSrv.InFlight() > 0; k++ {
						time.Sleep(500 * time.Millisecond)
						sched.Settle()
					}
					if !baseValid {
						base = sched.LibraryGoroutines()
						baseValid = isClosed(src.ready()) && isClosed(dst.ready())
					} else if left := sched.LibraryGoroutines() - base; left > 0 {
						problems = append(problems, fmt.Sprintf("cycle %d: %d library goroutines are left after the join result was closed", cycle, left))
						base += left
					}
					if isClosed(src.done()) || isClosed(dst.done()) {
						problems = append(problems, "closing the join stopped a base controller")
						return
					}
				}
				// the bases still work
				dstSrv.Put(proto(jd.dstKind, 2, 4, 1))
				pert.Barrier()
				if ids, _ := dst.listIDs(); !sameInts(ids, objIDs(dstSrv.Objects())) {
					problems = append(problems, "the destination controller is no longer current after the joins were closed")
				}
				sample = map[string]interface{}{"join": jd.name, "sources": len(srcSrv.Objects()), "destinations": len(dstSrv.Objects())}
			})
			runs++
			c.Rep.Evaluations++
			replay := map[string]interface{}{"join": jd.name, "seed": seed, "slow_source_list": slowSrc, "slow_destination_list": slowDst, "source_initially_empty": emptySrc}
			if dl != "" {
				replay["deadlock"] = dl
				c.Violation("", "hang (bubble deadlock) in join "+jd.name, replay)
			}
			for _, p := range problems {
				c.Violation("", jd.name+": "+p, replay)
			}
			for _, k := range known {
				c.KnownFinding("D5-rcpods-join-no-namespace", "join.RCPods selects pods of other namespaces (replicationcontroller.PodsFilter has no namespace scoping): "+k, replay)
			}
			for _, t := range cases {
				c.Case(t)
			}
			c.DistinctCase(fmt.Sprint(jd.name, seed))
			if runs == 3 {
				c.Sample(sample)
			}
		}
		// a source that never becomes ready (its first list fails, or it is closed
		// while its first list is in flight) under a ready destination: whatever
		// the constructor returns never becomes ready
		for ji, jd := range joinDefs {
			if c.Quick() && (ji+rep+int(c.Seed))%3 != 0 {
				continue
			}
			for variant := 0; variant < 2; variant++ {
				deadSourceJoin(c, jd, variant, c.Seed*100+int64(runs))
				runs++
			}
		}
		// the double join ingress -> services -> pods
		seed := c.Seed*100 + int64(runs)
		var problems []string
		slowPods := rep%2 == 1
		dl := sched.Bubble(c.T, func() {
			ingSrv, svcSrv, podSrv := fakeapi.New(), fakeapi.New(), fakeapi.New()
			ingSrv.Kind, svcSrv.Kind, podSrv.Kind = KIngress, KService, KPod
			if slowPods {
				podSrv.ListLatency = func(int) time.Duration { return 5 * time.Second }
			}
			ingSrv.Put(proto(KIngress, 1, 1, 0))
			for i := 0; i < 3; i++ {
				svcSrv.Put(proto(KService, 1, 1+i, 1+i))
			}
			for i := 0; i < 4; i++ {
				podSrv.Put(proto(KPod, 1+i%2, 1+i, i))
			}
			pert := sched.NewPerturb(seed, rep%3)
			ctx, cancel := context.WithCancel(context.Background())
			defer cancel()
			ing, _ := pkgOf(KIngress).build(ctx, pert.Log(), fakeClient(ingSrv))
			svc, _ := pkgOf(KService).build(ctx, pert.Log(), fakeClient(svcSrv))
			pod, _ := pkgOf(KPod).build(ctx, pert.Log(), fakeClient(podSrv))
			defer func() {
				pert.SetLevel(0)
				ing.closeFn()
				svc.closeFn()
				pod.closeFn()
				sched.Settle()
			}()
			pert.Barrier()
			if slowPods {
				// the result is closed BEFORE it ever became ready (the pod
				// controller's first list is still in flight): everything the join
				// created stops all the same.  The base controllers are not quiet
				// yet, so two such create/close rounds are compared with each other.
				var counts []int
				for round := 0; round < 3; round++ {
					jc, err := join.IngressPods(ctx, ing.raw.(tingress.Controller), svc.raw.(tservice.Controller), pod.raw.(tpod.Controller))
					if err != nil {
						problems = append(problems, "IngressPods failed: "+err.Error())
						return
					}
					pert.Barrier()
					if isClosed(jc.Ready()) {
						problems = append(problems, "IngressPods is ready although the pod controller is not")
					}
					jc.Close()
					pert.Barrier()
					time.Sleep(time.Millisecond)
					sched.Settle()
					if !isClosed(jc.Done()) {
						problems = append(problems, "an IngressPods result closed before it was ready is not done")
					}
					counts = append(counts, sched.LibraryGoroutines())
				}
				if counts[2] > counts[1] || counts[1] > counts[0] {
					problems = append(problems, fmt.Sprintf("library goroutines after three create/close rounds of an IngressPods result that never became ready: %v (something the join created keeps running)", counts))
				}
				time.Sleep(6 * time.Second)
				pert.Barrier()
			}
			base := sched.LibraryGoroutines()
			for cycle := 0; cycle < 3; cycle++ {
				jctx, jcancel := context.WithCancel(ctx)
				defer jcancel()
				jc, err := join.IngressPods(jctx, ing.raw.(tingress.Controller), svc.raw.(tservice.Controller), pod.raw.(tpod.Controller))
				if err != nil {
					problems = append(problems, "IngressPods failed: "+err.Error())
					return
				}
				if cycle%2 == 1 {
					// the constructor's context only carries the logger
					jcancel()
				}
				j := wrap_pod(jc)
				verify := func(stage string) {
					pert.Barrier()
					got, _ := j.listIDs()
					ings, svcs, pods := ingSrv.Objects(), svcSrv.Objects(), podSrv.Objects()
					var sel []*Obj
					for _, s := range svcs {
						if joinSelects(15, ings, s, true) {
							sel = append(sel, s)
						}
					}
					want := joinExpected(12, sel, pods, true)
					if !sameInts(got, want) {
						problems = append(problems, fmt.Sprintf("%s: IngressPods holds %v; pods of services named by an ingress are %v", stage, got, want))
					}
				}
				verify(fmt.Sprintf("cycle %d after creation", cycle))
				for s := 0; s < 8; s++ {
					switch c.Rng.Intn(4) {
					case 0:
						ingSrv.Put(proto(KIngress, 1, 1+c.Rng.Intn(2), c.Rng.Intn(6)))
					case 1:
						svcSrv.Put(proto(KService, 1, 1+c.Rng.Intn(3), c.Rng.Intn(6)))
					case 2:
						podSrv.Put(proto(KPod, 1+c.Rng.Intn(2), 1+c.Rng.Intn(4), c.Rng.Intn(6)))
					default:
						verify(fmt.Sprintf("cycle %d step %d", cycle, s))
					}
				}
				verify(fmt.Sprintf("cycle %d final", cycle))
				j.closeFn()
				pert.Barrier()
				time.Sleep(time.Millisecond)
				sched.Settle()
				if left := sched.LibraryGoroutines() - base; left > 0 {
					problems = append(problems, fmt.Sprintf("cycle %d: %d library goroutines are left after the IngressPods result was closed (the intermediate join?)", cycle, left))
					base += left
				}
			}
			// two results over the same bases are independent of each other: the
			// first is closed, the sources change, the second follows them; and the
			// result is a descendant of the POD controller: closing only the service
			// controller does not close it
			{
				jcA, errA := join.IngressPods(ctx, ing.raw.(tingress.Controller), svc.raw.(tservice.Controller), pod.raw.(tpod.Controller))
				jcB, errB := join.IngressPods(ctx, ing.raw.(tingress.Controller), svc.raw.(tservice.Controller), pod.raw.(tpod.Controller))
				if errA != nil || errB != nil {
					problems = append(problems, fmt.Sprintf("two IngressPods results over the same bases: %v %v", errA, errB))
					return
				}
				jA, jB := wrap_pod(jcA), wrap_pod(jcB)
				verifyB := func(stage string) {
					pert.Barrier()
					got, _ := jB.listIDs()
					ings, svcs, pods := ingSrv.Objects(), svcSrv.Objects(), podSrv.Objects()
					var sel []*Obj
					for _, s := range svcs {
						if joinSelects(15, ings, s, true) {
							sel = append(sel, s)
						}
					}
					if want := joinExpected(12, sel, pods, true); !sameInts(got, want) {
						problems = append(problems, fmt.Sprintf("%s: the second IngressPods result holds %v; pods of services named by an ingress are %v", stage, got, want))
					}
				}
				verifyB("two results, both open")
				jA.closeFn()
				pert.Barrier()
				if isClosed(jB.done()) {
					problems = append(problems, "closing one IngressPods result closed another one over the same bases")
				}
				for v := 0; v < 6; v++ {
					ingSrv.Put(proto(KIngress, 1, 1+v%2, v))
					svcSrv.Put(proto(KService, 1, 1+v%3, 5-v))
					verifyB(fmt.Sprintf("after the first result was closed, change %d", v))
				}
				svc.closeFn()
				pert.Barrier()
				time.Sleep(time.Millisecond)
				sched.Settle()
				if isClosed(jB.done()) {
					problems = append(problems, "closing the service controller closed the IngressPods result, a descendant of the pod controller")
				}
				if isClosed(pod.done()) || isClosed(ing.done()) {
					problems = append(problems, "closing the service controller stopped the pod or the ingress controller")
				}
				jB.closeFn()
				pert.Barrier()
				time.Sleep(time.Millisecond)
				sched.Settle()
			}
			// a base controller that has stopped: the constructor fails and
			// leaves nothing behind (the intermediate ingress->services join is
			// closed again), the other bases keep running
			for _, which := range []string{"pod", "service"} {
				if which == "pod" {
					pod.closeFn()
				} else {
					svc.closeFn()
				}
				pert.Barrier()
				time.Sleep(time.Millisecond)
				sched.Settle()
				b2 := sched.LibraryGoroutines()
				jc, err := join.IngressPods(ctx, ing.raw.(tingress.Controller), svc.raw.(tservice.Controller), pod.raw.(tpod.Controller))
				if err == nil {
					problems = append(problems, "IngressPods over a stopped "+which+" controller succeeded")
					jc.Close()
				}
				pert.Barrier()
				time.Sleep(time.Millisecond)
				sched.Settle()
				if left := sched.LibraryGoroutines() - b2; left > 0 {
					problems = append(problems, fmt.Sprintf("%d library goroutines are left after IngressPods failed over a stopped %s controller (the intermediate join is not closed)", left, which))
				}
				if isClosed(ing.done()) {
					problems = append(problems, "a failed IngressPods stopped the ingress controller")
				}
			}
		})
		runs++
		c.Rep.Evaluations++
		replay := map[string]interface{}{"join": "IngressPods", "seed": seed}
		if dl != "" {
			replay["deadlock"] = dl
			c.Violation("", "hang (bubble deadlock) in IngressPods", replay)
		}
		for _, p := range problems {
			c.Violation("", "IngressPods: "+p, replay)
		}
		c.DistinctCase(fmt.Sprint("IngressPods", seed))
	}
	c.Rep.Rule = "all eight generated joins and the double join IngressPods over fake API servers for source and destination (typed base controllers, virtual time, perturbation): source histories (sources appear, change selector, disappear) and destination histories (labels and namespaces change) at arbitrary relative timing; three create/use/close cycles of the join over long-lived base controllers (the third through the ...With constructor with a filter function that is slow on its first call while the source changes) (in the second cycle the context given to the constructor is cancelled right after construction: it only carries the logger). At barriers: join cache = destination objects selected by a current source object (ownership predicate written directly; also vs the extracted constructor + accept), ready only after source and destination (slow source list variant; slow destination list variant with the source changing before the destination is ready) and ready also when no source object exists at creation, Close stops everything the join created (goroutine inventory back to baseline each cycle; also when an IngressPods result is closed before it ever became ready) and leaves the bases running and current. Non-trivial = every (join, scenario). Two IngressPods results over the same bases: the first closed, six source changes, the second follows; closing only the service controller does not close the result (a descendant of the pod controller) nor the other bases."
	c.Rep.Stats["runs"] = runs
}

// deadSourceJoin: see the call site.  variant 0: every list of the source fails;
// variant 1: the source is closed while its first list is in flight.
func deadSourceJoin(c *Ctx, jd joinDef, variant int, seed int64) {
	var problems []string
	what := fmt.Sprintf("join %s over a source that never becomes ready (variant %d) and a ready destination", jd.name, variant)
	c.Now(what)
	dl := sched.Bubble(c.T, func() {
		srcSrv, dstSrv := fakeapi.New(), fakeapi.New()
		srcSrv.Kind, dstSrv.Kind = jd.srcKind, jd.dstKind
		srcSrv.Put(proto(jd.srcKind, 1, 1, 1))
		dstSrv.Put(proto(jd.dstKind, 1, 1, 1))
		dstSrv.Put(proto(jd.dstKind, 1, 2, 2))
		if variant == 0 {
			srcSrv.ListBehave = func(int) fakeapi.ListKind { return fakeapi.ListErr }
		} else {
			srcSrv.ListLatency = func(int) time.Duration { return 3 * time.Second }
		}
		pert := sched.NewPerturb(seed, int(seed%3))
		ctx, cancel := context.WithCancel(context.Background())
		defer cancel()
		src, err := pkgOf(jd.srcKind).build(ctx, pert.Log(), fakeClient(srcSrv))
		dst, err2 := pkgOf(jd.dstKind).build(ctx, pert.Log(), fakeClient(dstSrv))
		if err != nil || err2 != nil {
			problems = append(problems, fmt.Sprintf("construction failed: %v %v", err, err2))
			return
		}
		defer func() {
			pert.SetLevel(0)
			src.closeFn()
			dst.closeFn()
			sched.Settle()
		}()
		time.Sleep(time.Second)
		pert.Barrier()
		if !isClosed(dst.ready()) {
			problems = append(problems, "the destination is not ready (scenario premise)")
			return
		}
		before := sched.LibraryGoroutines()
		j, err := jd.mk(ctx, src, dst)
		if err != nil {
			// a constructor that fails leaves nothing behind: the clone of the
			// destination it had made is closed again
			pert.Barrier()
			time.Sleep(time.Millisecond)
			sched.Settle()
			if left := sched.LibraryGoroutines() - before; left > 0 {
				problems = append(problems, fmt.Sprintf("the constructor failed (%v) and left %d library goroutines behind (a clone of the destination that nobody can reach)", err, left))
			}
		}
		if variant == 1 {
			time.Sleep(500 * time.Millisecond)
			src.closeFn()
		}
		time.Sleep(5 * time.Second)
		pert.Barrier()
		if isClosed(src.ready()) {
			problems = append(problems, "the source became ready (scenario premise)")
		}
		if err == nil {
			if isClosed(j.ready()) {
				ids, _ := j.listIDs()
				problems = append(problems, fmt.Sprintf("the join is ready (holding %v) although its source never became ready", ids))
			}
			j.closeFn()
			pert.Barrier()
			if !isClosed(j.done()) {
				problems = append(problems, "the join is not done after Close()")
			}
		}
		if isClosed(dst.done()) {
			problems = append(problems, "the destination controller stopped")
		}
	})
	c.Rep.Evaluations++
	replay := map[string]interface{}{"scenario": what, "join": jd.name, "variant": variant}
	if dl != "" {
		replay["deadlock"] = dl
		c.Violation("", "hang (bubble deadlock): "+what, replay)
	}
	for _, p := range problems {
		c.Violation("", jd.name+": "+p+" ["+what+"]", replay)
	}
	c.DistinctCase(fmt.Sprintf("dead-source-%s-%d", jd.name, variant))
}
