package main

import (
	"math/rand"
	"fmt"
	"sort"

	"verifharness/enc"
	. "verifharness/kobj"

	"github.com/boz/kcache/filter"
	"github.com/boz/kcache/nsname"
	metav1 "k8s.io/apimachinery/pkg/apis/meta/v1"
)

func init() {
	commands["C17"] = runC17
	commands["C18"] = runC18
	commands["C19"] = runC19
}

// ---------------------------------------------------------------------
// universes

// all label maps over keys {1,2} x values {1,2,3} (absent or one value)
func labelMaps() []Map {
	var r []Map
	for a := 0; a <= 3; a++ {
		for b := 0; b <= 3; b++ {
			var m Map
			if a > 0 {
				m = append(m, KV{1, a})
			}
			if b > 0 {
				m = append(m, KV{2, b})
			}
			r = append(r, m)
		}
	}
	return r
}

// the C18 object universe: 3 namespaces x 3 names x all label maps
func podUniverse(nns, nnm int) []*Obj {
	var r []*Obj
	id := 1
	for ns := 1; ns <= nns; ns++ {
		for nm := 1; nm <= nnm; nm++ {
			for _, m := range labelMaps() {
				r = append(r, &Obj{ID: id, Kind: KPod, NS: ns, NM: nm, RV: "1", Labels: m, Spec: SPod, Node: 1 + id%2})
				id++
			}
		}
	}
	return r
}

// prefixObjs: pods and services whose names are prefixes of one another,
// continue with '-', or concatenate to the same string (kobj.StrZu ...)
func prefixObjs(startID int) []*Obj {
	id := startID
	var r []*Obj
	for _, k := range [][2]int{{StrZu, StrZzw}, {StrZuEu, 1}, {StrZuz, StrZw}, {StrZu, StrZw}, {StrZuz, StrZzw}, {StrZuEu, StrZzw}, {1, StrZw}} {
		r = append(r, &Obj{ID: id, Kind: KPod, NS: k[0], NM: k[1], RV: "1", Labels: Map{{1, k[1]}}, Spec: SPod, Node: 1},
			&Obj{ID: id + 1, Kind: KService, NS: k[0], NM: k[1], RV: "1", Labels: Map{{1, 1}}, Spec: SService, Sel: Map{{1, 1}}})
		id += 2
	}
	// pods on nodes whose names share a first label; events about objects
	// whose kinds differ only in the case of a letter
	for i, node := range []int{StrCasea, StrDotX, StrDotY, StrCaseA} {
		r = append(r, &Obj{ID: id, Kind: KPod, NS: 1, NM: 1 + i, RV: "1", Spec: SPod, Node: node},
			&Obj{ID: id + 1, Kind: KEvent, NS: 1, NM: 5 + i, RV: "1", Spec: SEvent, IKind: node, INS: 1, INM: 1})
		id += 2
	}
	return r
}

// objects of other kinds, for the typed filters and "rejects other kinds"
func otherKinds(startID int) []*Obj {
	id := startID
	var r []*Obj
	add := func(o *Obj) { o.ID = id; id++; o.RV = "1"; r = append(r, o) }
	for ns := 1; ns <= 2; ns++ {
		for _, sel := range []Map{nil, {{1, 1}}, {{1, 1}, {2, 2}}, {{2, 3}}, {{1, 0}}, {{2, 0}}, {{1, 1}, {2, 0}}, {{3, 0}}} {
			add(&Obj{Kind: KService, NS: ns, NM: id % 7, Labels: Map{{1, 1}}, Spec: SService, Sel: sel})
		}
		for ik := 1; ik <= 2; ik++ {
			for inm := 1; inm <= 2; inm++ {
				add(&Obj{Kind: KEvent, NS: ns, NM: ik*2 + inm, Spec: SEvent, IKind: ik, INS: ns, INM: inm})
			}
		}
		// events about an object without kind / a cluster-scoped object
		add(&Obj{Kind: KEvent, NS: ns, NM: 7, Spec: SEvent, IKind: 0, INS: ns, INM: 1})
		add(&Obj{Kind: KEvent, NS: ns, NM: 8, Spec: SEvent, IKind: 1, INS: 0, INM: 1})
		add(&Obj{Kind: KEvent, NS: ns, NM: 9, Spec: SEvent, IKind: 0, INS: 0, INM: 2})
		add(&Obj{Kind: KNode, NS: 0, NM: ns, Labels: Map{{1, 1}}, Spec: SNone})
		add(&Obj{Kind: KSecret, NS: ns, NM: 1, Spec: SNone})
	}
	return r
}

func atoms(small bool) []*Filt {
	r := []*Filt{
		{Tag: FNull},
		{Tag: FAll},
		{Tag: FNSName, IDs: []ID2{{1, 1}}},
		{Tag: FNSName, IDs: []ID2{{2, 0}}},
		{Tag: FNSName, IDs: []ID2{{0, 0}}}, // an entry with both fields empty
		{Tag: FLabels, Map: Map{{1, 1}}},
		{Tag: FLabelSelector, LSel: &LSel{Exprs: []Expr{{Key: 2, Op: 1, Vals: []int{1, 2}}}}},
	}
	if small {
		return r
	}
	r = append(r,
		&Filt{Tag: FNSName},
		&Filt{Tag: FNSName, IDs: []ID2{{0, 2}}},
		&Filt{Tag: FNSName, IDs: []ID2{{0, 0}, {1, 1}}},
		&Filt{Tag: FNSName, IDs: []ID2{{3, 3}, {0, 0}}},
		&Filt{Tag: FNSName, IDs: []ID2{{1, 1}, {2, 0}, {0, 3}, {3, 3}}},
		&Filt{Tag: FNSName, IDs: []ID2{{2, 0}, {1, 1}, {3, 3}, {0, 3}}},
		&Filt{Tag: FNSName, IDs: []ID2{{0, 3}, {2, 0}, {1, 1}, {3, 3}}},
		// names that are prefixes of one another, that continue with '-', and pairs
		// whose concatenation coincides (kobj.StrZu ...): ids are pairs, not strings
		&Filt{Tag: FNSName, IDs: []ID2{{StrZu, StrZzw}, {StrZuEu, 1}}},
		&Filt{Tag: FNSName, IDs: []ID2{{StrZuEu, 1}, {StrZu, StrZzw}, {StrZuz, StrZw}}},
		&Filt{Tag: FNSName, IDs: []ID2{{StrZuz, StrZw}}},
		&Filt{Tag: FNSName, IDs: []ID2{{StrZu, 0}, {0, StrZw}}},
		// more than a handful of wildcard entries
		&Filt{Tag: FNSName, IDs: []ID2{{1, 0}, {0, 2}, {3, 0}, {0, 1}, {StrZuEu, 0}, {0, StrZzw}}},
		&Filt{Tag: FNSName, IDs: []ID2{{1, 0}, {0, 2}, {3, 0}, {0, 1}, {StrZuEu, 0}, {0, StrZzw}, {2, 2}, {StrZu, StrZzw}}},
		&Filt{Tag: FLabels, Map: nil},
		&Filt{Tag: FLabels, Map: Map{{1, 1}, {2, 2}}},
		&Filt{Tag: FLabels, Map: Map{{2, 3}}},
		&Filt{Tag: FLabelSelector, LSel: nil},
		&Filt{Tag: FLabelSelector, LSel: &LSel{}},
		&Filt{Tag: FLabelSelector, LSel: &LSel{Labels: Map{{1, 1}}}},
		&Filt{Tag: FLabelSelector, LSel: &LSel{Labels: Map{{1, 1}, {2, 2}}}},
		&Filt{Tag: FLabelSelector, LSel: &LSel{Exprs: []Expr{{Key: 1, Op: 0, Vals: []int{1, 2}}}}},
		&Filt{Tag: FLabelSelector, LSel: &LSel{Exprs: []Expr{{Key: 1, Op: 0, Vals: []int{2, 1}}}}},
		&Filt{Tag: FLabelSelector, LSel: &LSel{Exprs: []Expr{{Key: 1, Op: 1, Vals: []int{1}}}}},
		&Filt{Tag: FLabelSelector, LSel: &LSel{Exprs: []Expr{{Key: 2, Op: 2}}}},
		&Filt{Tag: FLabelSelector, LSel: &LSel{Exprs: []Expr{{Key: 2, Op: 3}}}},
		&Filt{Tag: FLabelSelector, LSel: &LSel{Labels: Map{{2, 2}}, Exprs: []Expr{{Key: 1, Op: 2}, {Key: 2, Op: 1, Vals: []int{3}}}}},
		&Filt{Tag: FLabelSelector, LSel: &LSel{Labels: Map{{1, 1}}, Exprs: []Expr{{Key: 1, Op: 0, Vals: []int{1, 3}}}}},
		// several requirements on one key: all of them count
		&Filt{Tag: FLabelSelector, LSel: &LSel{Exprs: []Expr{{Key: 1, Op: 2}, {Key: 1, Op: 1, Vals: []int{1}}}}},
		&Filt{Tag: FLabelSelector, LSel: &LSel{Exprs: []Expr{{Key: 1, Op: 1, Vals: []int{1}}, {Key: 1, Op: 2}}}},
		&Filt{Tag: FLabelSelector, LSel: &LSel{Exprs: []Expr{{Key: 1, Op: 0, Vals: []int{1, 2}}, {Key: 1, Op: 1, Vals: []int{2}}}}},
		&Filt{Tag: FLabelSelector, LSel: &LSel{Exprs: []Expr{{Key: 1, Op: 1, Vals: []int{2}}, {Key: 1, Op: 0, Vals: []int{1, 2}}}}},
		&Filt{Tag: FLabelSelector, LSel: &LSel{Labels: Map{{1, 1}}, Exprs: []Expr{{Key: 1, Op: 0, Vals: []int{2}}}}},
		&Filt{Tag: FLabelSelector, LSel: &LSel{Labels: Map{{2, 2}}, Exprs: []Expr{{Key: 2, Op: 1, Vals: []int{3}}, {Key: 2, Op: 2}, {Key: 1, Op: 3}}}},
	)
	return r
}

// permGroups: for every workload constructor, sources in different
// namespaces whose name order is the reverse of their namespace order, in
// every permutation.  Terms of one group are built from the same set of
// sources and must compare equal.
func permGroups() [][]*Filt {
	var groups [][]*Filt
	id := 2000
	mkw := func(kind, ns, nm int) *Obj {
		id++
		switch kind {
		case KService:
			return &Obj{ID: id, Kind: kind, NS: ns, NM: nm, RV: "1", Spec: SService, Sel: Map{{1, nm}}}
		case KRC:
			return &Obj{ID: id, Kind: kind, NS: ns, NM: nm, RV: "1", Spec: SRC, Sel: Map{{1, nm}}}
		case KIngress:
			return &Obj{ID: id, Kind: kind, NS: ns, NM: nm, RV: "1", Spec: SIngress, Backend: nm}
		}
		return &Obj{ID: id, Kind: kind, NS: ns, NM: nm, RV: "1", Spec: SWorkload, LSel: &LSel{Labels: Map{{1, nm}}}}
	}
	perms3 := [][]int{{0, 1, 2}, {0, 2, 1}, {1, 0, 2}, {1, 2, 0}, {2, 0, 1}, {2, 1, 0}}
	for _, kt := range [][2]int{{KService, FServicePods}, {KRC, FRCPods}, {KRS, FWorkloadPods}, {KDeployment, FWorkloadPods},
		{KDaemonSet, FWorkloadPods}, {KStatefulSet, FWorkloadPods}, {KJob, FWorkloadPods}, {KIngress, FIngressServices}} {
		kind, tag := kt[0], kt[1]
		src := []*Obj{mkw(kind, 1, 2), mkw(kind, 2, 1), mkw(kind, 1, 1)}
		var g3, g2 []*Filt
		for _, p := range perms3 {
			g3 = append(g3, &Filt{Tag: tag, Objs: []*Obj{src[p[0]], src[p[1]], src[p[2]]}})
		}
		g2 = append(g2, &Filt{Tag: tag, Objs: []*Obj{src[0], src[1]}}, &Filt{Tag: tag, Objs: []*Obj{src[1], src[0]}})
		groups = append(groups, g3, g2)
		// sources whose namespace and name concatenate to the same string, and a
		// namespace that continues another one with '-'
		psrc := []*Obj{mkw(kind, StrZu, StrZzw), mkw(kind, StrZuz, StrZw), mkw(kind, StrZuEu, 1)}
		var p3 []*Filt
		for _, p := range perms3 {
			p3 = append(p3, &Filt{Tag: tag, Objs: []*Obj{psrc[p[0]], psrc[p[1]], psrc[p[2]]}})
		}
		groups = append(groups, p3, []*Filt{{Tag: tag, Objs: []*Obj{psrc[0], psrc[1]}}, {Tag: tag, Objs: []*Obj{psrc[1], psrc[0]}}})
	}
	return groups
}

func hasFn(f *Filt) bool {
	if f.Tag == FFn {
		return true
	}
	for _, c := range f.Children {
		if hasFn(c) {
			return true
		}
	}
	return false
}

// typed atoms (C17, C19)
func typedAtoms() []*Filt {
	svc := func(id, ns, nm int, sel Map) *Obj {
		return &Obj{ID: id, Kind: KService, NS: ns, NM: nm, RV: "1", Spec: SService, Sel: sel}
	}
	rc := func(id, ns, nm int, sel Map) *Obj {
		return &Obj{ID: id, Kind: KRC, NS: ns, NM: nm, RV: "1", Spec: SRC, Sel: sel}
	}
	wl := func(kind, id, ns, nm int, ls *LSel, tmpl Map) *Obj {
		return &Obj{ID: id, Kind: kind, NS: ns, NM: nm, RV: "1", Spec: SWorkload, LSel: ls, Tmpl: tmpl}
	}
	ing := func(id, ns, nm, be int, paths ...int) *Obj {
		return &Obj{ID: id, Kind: KIngress, NS: ns, NM: nm, RV: "1", Spec: SIngress, Backend: be, Paths: paths}
	}
	s1, s2, s3 := svc(900, 1, 1, Map{{1, 1}}), svc(901, 2, 1, Map{{2, 2}}), svc(902, 1, 2, nil)
	r1, r2 := rc(910, 1, 1, Map{{1, 1}}), rc(911, 2, 2, Map{{2, 3}})
	d1 := wl(KDeployment, 920, 1, 1, &LSel{Labels: Map{{1, 1}}}, nil)
	d2 := wl(KDeployment, 921, 2, 1, nil, Map{{2, 2}})
	d3 := wl(KDeployment, 922, 1, 2, &LSel{Exprs: []Expr{{Key: 1, Op: 0, Vals: []int{1, 2}}}}, nil)
	i1, i2 := ing(930, 1, 1, 1, 2), ing(931, 2, 1, 0, 3, 1)
	return []*Filt{
		{Tag: FNode, Names: nil},
		{Tag: FNode, Names: []int{1}},
		{Tag: FNode, Names: []int{1, 2}},
		{Tag: FNode, Names: []int{2, 1}},
		{Tag: FInvolved, K: 1, NS: 1, NM: 1},
		{Tag: FInvolved, K: 1, NS: 1, NM: 2},
		{Tag: FInvolved, K: 2, NS: 1, NM: 1},
		{Tag: FInvolved, K: 1, NS: 2, NM: 1},
		{Tag: FInvolved, K: 0, NS: 1, NM: 1}, // an object that carries no kind: matches events about an object without kind only
		{Tag: FInvolved, K: 1, NS: 0, NM: 1}, // a cluster-scoped object
		{Tag: FInvolved, K: 0, NS: 0, NM: 2},
		// kinds that differ only in the case of a letter; node names that share a first label
		{Tag: FInvolved, K: StrCaseA, NS: 1, NM: 1},
		{Tag: FInvolved, K: StrCasea, NS: 1, NM: 1},
		{Tag: FNode, Names: []int{StrDotX}},
		{Tag: FNode, Names: []int{StrCasea}},
		{Tag: FNode, Names: []int{StrDotY, StrDotX}},
		{Tag: FSelectorMatch, Map: nil},
		{Tag: FSelectorMatch, Map: Map{{1, 1}}},
		{Tag: FSelectorMatch, Map: Map{{1, 1}, {2, 2}}},
		{Tag: FSelectorMatch, Map: Map{{1, 1}, {2, 3}}},
		{Tag: FSelectorMatch, Map: Map{{1, 0}}},
		{Tag: FSelectorMatch, Map: Map{{2, 0}}},
		{Tag: FSelectorMatch, Map: Map{{1, 1}, {2, 0}}},
		{Tag: FSelectorMatch, Map: Map{{1, 1}, {3, 0}}},
		{Tag: FSelectorMatch, Map: Map{{2, 1}}},
		{Tag: FServicePods, Objs: nil},
		{Tag: FServicePods, Objs: []*Obj{s1}},
		{Tag: FServicePods, Objs: []*Obj{s1, s2, s3}},
		{Tag: FServicePods, Objs: []*Obj{s3, s2, s1}},
		{Tag: FServicePods, Objs: []*Obj{s2, s1}},
		{Tag: FRCPods, Objs: nil},
		{Tag: FRCPods, Objs: []*Obj{r1, r2}},
		{Tag: FRCPods, Objs: []*Obj{r2, r1}},
		{Tag: FRCPods, Objs: []*Obj{r1}},
		{Tag: FWorkloadPods, Objs: []*Obj{d1, d2, d3}},
		{Tag: FWorkloadPods, Objs: []*Obj{d3, d1, d2}},
		{Tag: FWorkloadPods, Objs: []*Obj{d1}},
		{Tag: FWorkloadPods, Objs: []*Obj{d2, d1}},
		{Tag: FIngressServices, Objs: nil},
		{Tag: FIngressServices, Objs: []*Obj{i1}},
		{Tag: FIngressServices, Objs: []*Obj{i1, i2}},
		{Tag: FIngressServices, Objs: []*Obj{i2, i1}},
	}
}

func not(f *Filt) *Filt        { return &Filt{Tag: FNot, Children: []*Filt{f}} }
func fn(f *Filt) *Filt         { return &Filt{Tag: FFn, Children: []*Filt{f}} }
func and(fs ...*Filt) *Filt    { return &Filt{Tag: FAnd, Children: fs} }
func or(fs ...*Filt) *Filt     { return &Filt{Tag: FOr, Children: fs} }

// one combinator level over `base`, children drawn from `pool`
func level(base, pool []*Filt) []*Filt {
	var r []*Filt
	for _, a := range base {
		r = append(r, not(a))
	}
	r = append(r, and(), or())
	for _, a := range base {
		r = append(r, and(a), or(a))
		for _, b := range pool {
			r = append(r, and(a, b), or(a, b))
		}
	}
	return r
}

func randomTerm(c *Ctx, depth int, pool []*Filt) *Filt {
	if depth == 0 || c.Rng.Intn(5) == 0 {
		return pool[c.Rng.Intn(len(pool))]
	}
	switch c.Rng.Intn(4) {
	case 0:
		return not(randomTerm(c, depth-1, pool))
	case 1:
		return fn(randomTerm(c, depth-1, pool))
	case 2:
		n := c.Rng.Intn(4)
		var cs []*Filt
		for i := 0; i < n; i++ {
			cs = append(cs, randomTerm(c, depth-1, pool))
		}
		return and(cs...)
	default:
		n := c.Rng.Intn(4)
		var cs []*Filt
		for i := 0; i < n; i++ {
			cs = append(cs, randomTerm(c, depth-1, pool))
		}
		return or(cs...)
	}
}

func depthOf(f *Filt) int {
	d := 0
	for _, c := range f.Children {
		if x := depthOf(c) + 1; x > d {
			d = x
		}
	}
	return d
}

// ---------------------------------------------------------------------
// evaluation on the implementation

func goAccept(f filter.Filter, o metav1.Object) (res bool, panicked bool) {
	defer func() {
		if r := recover(); r != nil {
			panicked = true
		}
	}()
	return f.Accept(o), false
}

func acceptMatrix(c *Ctx, fs []*Filt, os []*Obj) {
	gos := make([]metav1.Object, len(os))
	for i, o := range os {
		gos[i] = o.Go()
	}
	const chunk = 200
	for start := 0; start < len(fs); start += chunk {
		end := start + chunk
		if end > len(fs) {
			end = len(fs)
		}
		fts := make([]enc.T, 0, end-start)
		rows := make([]enc.T, 0, end-start)
		for _, f := range fs[start:end] {
			gf := f.Go()
			row := make([]enc.T, len(os))
			acc := 0
			for j, o := range gos {
				res, p := goAccept(gf, o)
				if p {
					c.Violation("", "Accept panicked", map[string]interface{}{"filter": f.Enc().String(), "obj": os[j].Enc().String()})
				}
				// purity: a second call gives the same answer
				if res2, _ := goAccept(gf, o); res2 != res {
					c.Violation("", "Accept is not a function of the object", map[string]interface{}{"filter": f.Enc().String(), "obj": os[j].Enc().String()})
				}
				row[j] = enc.B(res)
				if res {
					acc++
				}
				c.Rep.Evaluations++
			}
			fe := f.Enc()
			fts = append(fts, fe)
			rows = append(rows, enc.L(row...))
			c.Stat(fmt.Sprintf("depth%d", depthOf(f)), 1)
			if acc > 0 && acc < len(os) {
				c.DistinctCase(fe.String())
			}
		}
		c.Case(enc.L(enc.I(1), enc.L(fts...), EncObjs(os), enc.L(rows...)))
	}
}

// ---------------------------------------------------------------------
// C18

func runC18(c *Ctx) {
	objs := podUniverse(3, 3)
	objs = append(objs, otherKinds(5000)...)
	objs = append(objs, prefixObjs(5500)...)
	var terms []*Filt
	all := atoms(false)
	for _, a := range all {
		terms = append(terms, a, fn(a))
	}
	// depth 1 over every atom, depth 2 exhaustively over the small atom family
	terms = append(terms, level(all, all)...)
	small := atoms(true)
	d1 := level(small, small)
	pool := append(append([]*Filt{}, small...), d1...)
	terms = append(terms, level(d1, pool)...)
	n := 300
	if !c.Quick() {
		n = 20000
	}
	rpool := append(append([]*Filt{}, all...), typedAtoms()...)
	for i := 0; i < n; i++ {
		terms = append(terms, randomTerm(c, 3, rpool))
	}
	c.Rep.Rule = "filter terms: every atom (Null, All, NSName full/partial/mixed, Labels, LabelSelector with In/NotIn/Exists/DoesNotExist/matchLabels, FN), all depth-1 combinations (Not, And, Or of <=2 children) over every atom, all depth-2 combinations over a 6-atom family, seeded-random depth-3 terms (also over typed atoms); objects: 3 namespaces x 3 names x all label maps over 2 keys x 3 values, plus services, events, nodes, secrets. Plus 240 (6000) random atoms (id lists with duplicates, wildcards and double-empty entries; label maps nil / empty / with empty values; selectors with up to three requirements, several on one key) and Not/And/Or of them over 150 random objects of all kinds (empty namespaces, unscheduled pods, kind-less involved objects). Each term's Accept is evaluated on every object by the real filter and by the extracted model. Non-trivial = term that accepts some but not all objects; distinct by encoded term. Names include five that are not two letters wide: prefixes of one another, one continuing with '-', and two (namespace, name) pairs that concatenate to the same string. NSName atoms over them and with six / eight wildcard entries."
	c.Sample(map[string]interface{}{"filter": terms[len(terms)-1].Enc().String(), "object": objs[17].Enc().String()})
	c.Sample(map[string]interface{}{"filter": terms[200].Enc().String(), "object": objs[3].Enc().String()})
	acceptMatrix(c, terms, objs)
	// random atoms and combinations of them over random objects, every
	// dimension small and including its degenerate values
	{
		rng := rand.New(rand.NewSource(c.Seed*31 + 18))
		n := 240
		if !c.Quick() {
			n = 6000
		}
		ra := randAtoms(rng, genericTags, n)
		var rt []*Filt
		for i, a := range ra {
			rt = append(rt, a)
			switch i % 4 {
			case 1:
				rt = append(rt, not(a))
			case 2:
				rt = append(rt, and(a, ra[rng.Intn(len(ra))]))
			case 3:
				rt = append(rt, or(a, not(ra[rng.Intn(len(ra))])))
			}
		}
		acceptMatrix(c, rt, randObjs(rng, 150, 800000))
	}
	nsnameText(c)
	c.Rep.Stats["terms"] = len(terms)
	c.Rep.Stats["objects"] = len(objs)
}

// nsnameText: nsname.Parse and NSName.String against NSName.v (runner command
// 21).  Every string of length <= 5 over {a, b, /} and seeded longer ones over
// a wider alphabet (multi-byte runes, NUL, a backslash) are parsed; the
// implementation's verdict, the two halves and the String of the result are
// compared with ns_parse / ns_string byte for byte; and String followed by
// Parse is run on every pair of halves over the same alphabet, slashes included.
func nsnameText(c *Ctx) {
	bytesOf := func(s string) enc.T {
		var l []enc.T
		for i := 0; i < len(s); i++ {
			l = append(l, enc.I(int(s[i])))
		}
		return enc.L(l...)
	}
	var inputs []string
	var gen func(prefix string, n int)
	gen = func(prefix string, n int) {
		inputs = append(inputs, prefix)
		if n == 0 {
			return
		}
		for _, ch := range []string{"a", "b", "/"} {
			gen(prefix+ch, n-1)
		}
	}
	gen("", 5)
	rng := rand.New(rand.NewSource(c.Seed*31 + 181))
	alphabet := []string{"a", "/", "/", "é", "\x00", "\\", "kube-system", ".", " ", "//"}
	n := 300
	if !c.Quick() {
		n = 6000
	}
	for i := 0; i < n; i++ {
		s := ""
		for k := rng.Intn(7); k > 0; k-- {
			s += alphabet[rng.Intn(len(alphabet))]
		}
		inputs = append(inputs, s)
	}
	accepted := 0
	for _, in := range inputs {
		id, err := nsname.Parse(in)
		ok := 0
		if err == nil {
			ok = 1
			accepted++
		} else if err != nsname.ErrInvalidID {
			c.Violation("", "nsname.Parse fails with something else than ErrInvalidID", map[string]interface{}{"input": in, "error": err.Error()})
		}
		c.Case(enc.L(enc.I(21), bytesOf(in), enc.I(ok), bytesOf(id.Namespace), bytesOf(id.Name), bytesOf(id.String())))
		if ok == 1 {
			c.DistinctCase("nsname-" + in)
		}
	}
	// String, then Parse: (22 ns name string ok ns' name')
	halves := []string{"", "a", "ab", "/", "a/", "/a", "a/b", "é", "kube-system"}
	for _, a := range halves {
		for _, b := range halves {
			str := nsname.New(a, b).String()
			back, err := nsname.Parse(str)
			ok := 0
			if err == nil {
				ok = 1
			}
			c.Case(enc.L(enc.I(22), bytesOf(a), bytesOf(b), bytesOf(str), enc.I(ok), bytesOf(back.Namespace), bytesOf(back.Name)))
		}
	}
	c.Rep.Stats["nsname_inputs"] = len(inputs)
	c.Rep.Stats["nsname_accepted"] = accepted
	c.Rep.Rule += " PLUS nsname.Parse / NSName.String: every string of length <= 5 over {a, b, /} and 300 (6000) seeded strings over an alphabet with multi-byte runes, NUL, backslash and double slashes, byte for byte against NSName.ns_parse / ns_string (runner command 21); String then Parse over all pairs of nine halves, slashes included (command 22)."
}

// ---------------------------------------------------------------------
// C17

func goEqual(a, b filter.Filter) (res bool) {
	return filter.FiltersEqual(a, b)
}

func runC17(c *Ctx) {
	objs := podUniverse(3, 3)
	objs = append(objs, otherKinds(5000)...)
	objs = append(objs, prefixObjs(5500)...)
	objs = append(objs, randObjs(rand.New(rand.NewSource(c.Seed*31+170)), 120, 820000)...)
	gos := make([]metav1.Object, len(objs))
	for i, o := range objs {
		gos[i] = o.Go()
	}
	all := append(atoms(false), typedAtoms()...)
	// a family of filters that are easy to confuse, all within the first
	// diagonal block (every pair is compared): id lists that repeat an id,
	// share an id, or differ in one id only; ingresses with several paths to
	// one service
	ingf := func(id, be int, paths ...int) *Filt {
		return &Filt{Tag: FIngressServices, Objs: []*Obj{{ID: id, Kind: KIngress, NS: 1, NM: 1, RV: "1", Spec: SIngress, Backend: be, Paths: paths}}}
	}
	confusable := []*Filt{
		{Tag: FNSName, IDs: []ID2{{1, 1}, {1, 1}, {2, 2}}},
		{Tag: FNSName, IDs: []ID2{{3, 3}, {3, 3}, {2, 2}}},
		{Tag: FNSName, IDs: []ID2{{1, 1}, {2, 2}}},
		{Tag: FNSName, IDs: []ID2{{2, 2}, {1, 1}, {1, 1}}},
		{Tag: FNSName, IDs: []ID2{{1, 1}, {3, 3}, {2, 2}}},
		{Tag: FNSName, IDs: []ID2{{2, 2}}},
		{Tag: FNSName, IDs: []ID2{{1, 0}, {1, 0}, {0, 2}}},
		{Tag: FNSName, IDs: []ID2{{2, 0}, {2, 0}, {0, 2}}},
		{Tag: FNSName, IDs: []ID2{{1, 0}, {0, 2}}},
		{Tag: FNSName, IDs: []ID2{{0, 2}}},
		ingf(940, 0, 1, 1, 2), ingf(941, 0, 3, 3, 2), ingf(942, 0, 1, 2), ingf(943, 2, 1, 1), ingf(944, 2),
	}
	var terms []*Filt
	terms = append(terms, confusable...)
	for _, a := range all {
		terms = append(terms, a)
	}
	// two label filters whose selectors PRINT alike but are different:
	// {aa: ab, ac: ad} and {aa: "ab,ac=ad"}; and the two pods that tell them apart
	if len(terms)%60 == 59 {
		terms = append(terms, &Filt{Tag: FNull})
	}
	terms = append(terms, &Filt{Tag: FLabels, Map: Map{{1, 2}, {3, 4}}}, &Filt{Tag: FLabels, Map: Map{{1, StrPrinted}}})
	for i, m := range []Map{{{1, 2}, {3, 4}}, {{1, StrPrinted}}} {
		o := &Obj{ID: 7001 + i, Kind: KPod, NS: 1, NM: 1, RV: "1", Labels: m, Spec: SPod}
		objs = append(objs, o)
		gos = append(gos, o.Go())
	}
	groupOf := map[int]int{} // term index -> permutation group
	for gi, g := range permGroups() {
		for _, f := range g {
			groupOf[len(terms)] = gi + 1
			terms = append(terms, f)
		}
	}
	for _, a := range all {
		terms = append(terms, not(a), fn(a))
	}
	terms = append(terms, and(), or())
	small := atoms(true)
	small = append(small, typedAtoms()[1], typedAtoms()[13])
	for _, a := range small {
		terms = append(terms, and(a), or(a), not(not(a)), not(fn(a)))
		for _, b := range small {
			terms = append(terms, and(a, b), or(a, b), and(not(a), b), or(a, not(b)))
		}
	}
	n := 100
	if !c.Quick() {
		n = 1500
	}
	for i := 0; i < n; i++ {
		terms = append(terms, randomTerm(c, 3, all))
	}
	// pools of 60 random filters of ONE constructor over tiny ranges (so that
	// equal and nearly equal ones abound), each pool filling one diagonal block
	// in which every pair is compared
	{
		rng := rand.New(rand.NewSource(c.Seed*31 + 17))
		for len(terms)%60 != 0 {
			terms = append(terms, &Filt{Tag: FNull})
		}
		pools := append(append([]int{}, genericTags...), typedTags...)
		rounds := 1
		if !c.Quick() {
			rounds = 12
		}
		id := 900000
		for r := 0; r < rounds; r++ {
			for _, tag := range pools {
				for k := 0; k < 60; k++ {
					terms = append(terms, randAtom(rng, tag, &id))
				}
			}
		}
	}
	// every term is built twice, independently, so that "built twice from the
	// same arguments" is exercised on distinct Go values
	left := make([]filter.Filter, len(terms)+1)
	right := make([]filter.Filter, len(terms)+1)
	for i, t := range terms {
		left[i] = t.Go()
		right[i] = t.Go()
	}
	left[len(terms)], right[len(terms)] = nil, nil // the nil filter
	// accept vectors, for the property's own oracle
	vec := make([][]bool, len(terms))
	for i := range terms {
		vec[i] = make([]bool, len(gos))
		for j, o := range gos {
			vec[i][j], _ = goAccept(left[i], o)
		}
	}
	encs := make([]enc.T, len(terms)+1)
	for i, t := range terms {
		encs[i] = t.Enc()
	}
	encs[len(terms)] = enc.L(enc.I(16))
	const chunk = 60
	equalPairs := 0
	for start := 0; start <= len(terms); start += chunk {
		end := start + chunk
		if end > len(terms)+1 {
			end = len(terms) + 1
		}
		// a block of rows against all columns would be a large line; use
		// square blocks on the diagonal plus a strided sample off it
		idx := []int{}
		for i := start; i < end; i++ {
			idx = append(idx, i)
		}
		for k := 0; k < chunk; k++ {
			idx = append(idx, c.Rng.Intn(len(terms)+1))
		}
		fts := make([]enc.T, len(idx))
		for a, i := range idx {
			fts[a] = encs[i]
		}
		rows := make([]enc.T, len(idx))
		for a, i := range idx {
			row := make([]enc.T, len(idx))
			for b, j := range idx {
				eq := goEqual(left[i], right[j])
				row[b] = enc.B(eq)
				c.Rep.Evaluations++
				if !eq && i < len(terms) && j < len(terms) {
					// comparable filters built twice from the same arguments compare
					// equal; workload filters regardless of the order of their sources
					if i == j && !hasFn(terms[i]) {
						c.Violation("", "a comparable filter built twice from the same arguments does not compare equal", map[string]interface{}{"filter": encs[i].String()})
					}
					if gi, ok := groupOf[i]; ok && groupOf[j] == gi {
						c.Violation("", "workload filters built from the same sources in a different order do not compare equal", map[string]interface{}{"left": encs[i].String(), "right": encs[j].String()})
					}
				}
				if eq {
					equalPairs++
					if i < len(terms) && j < len(terms) {
						c.DistinctCase(fmt.Sprintf("%d=%d", i, j))
						// the property itself, on the implementation
						for o := range gos {
							if vec[i][o] != vec[j][o] {
								c.Violation("", "filters reported equal disagree on an object", map[string]interface{}{
									"left": encs[i].String(), "right": encs[j].String(), "obj": objs[o].Enc().String()})
								break
							}
						}
					}
				}
			}
			rows[a] = enc.L(row...)
		}
		c.Case(enc.L(enc.I(2), enc.L(fts...), enc.L(rows...)))
	}
	// a label selector with more than twelve requirements, two of them on one
	// key, built twice from the same value (known finding D14: apimachinery sorts
	// the requirements by key with an unstable sort once there are more than
	// twelve, after iterating a map, and Equals compares the sorted lists)
	{
		big := &LSel{}
		for k := 1; k <= 8; k++ {
			big.Labels = append(big.Labels, KV{K: k, V: 1})
		}
		for k := 1; k <= 4; k++ {
			big.Exprs = append(big.Exprs, Expr{Key: k, Op: 2}, Expr{Key: k, Op: 1, Vals: []int{3}})
		}
		bf := &Filt{Tag: FLabelSelector, LSel: big}
		unequal, pairs := 0, 0
		first := bf.Go()
		for k := 0; k < 40; k++ {
			other := bf.Go()
			pairs++
			if !goEqual(first, other) {
				unequal++
			}
			// soundness is untouched: both accept the same objects
			for j, o := range gos {
				a, _ := goAccept(first, o)
				b, _ := goAccept(other, o)
				if a != b {
					c.Violation("", "a label selector built twice from the same value accepts different objects", map[string]interface{}{"filter": bf.Enc().String(), "obj": objs[j].Enc().String()})
					break
				}
			}
		}
		c.Rep.Evaluations += pairs
		// the assumption under SelectorOrder.v (possible_build): whatever order a
		// build comes out in, it is a key-sorted arrangement of the same thirteen-odd
		// requirements.  Asked of apimachinery directly (the filter keeps its
		// selector private): a build that is not one is outside the model.
		{
			canon := func(k string, op string, vals []string) string { return fmt.Sprint(k, "|", op, "|", vals) }
			var want []string
			for k := 0; k < 12; k++ {
				sel, err := metav1.LabelSelectorAsSelector(big.Go())
				reqs, _ := sel.Requirements()
				if err != nil {
					c.Violation("", "model assumption (SelectorOrder.possible_build): LabelSelectorAsSelector fails on the D14 selector", map[string]interface{}{"filter": bf.Enc().String()})
					break
				}
				var got []string
				sortedByKey := true
				for i, r := range reqs {
					got = append(got, canon(r.Key(), string(r.Operator()), r.Values().List()))
					if i > 0 && reqs[i-1].Key() > r.Key() {
						sortedByKey = false
					}
				}
				sort.Strings(got)
				if want == nil {
					want = got
				}
				if !sortedByKey || fmt.Sprint(got) != fmt.Sprint(want) || len(got) != len(big.Labels)+len(big.Exprs) {
					c.Violation("", "model assumption (SelectorOrder.possible_build): a build of the D14 selector is not a key-sorted arrangement of its requirements", map[string]interface{}{"filter": bf.Enc().String(), "requirements": got, "sorted_by_key": sortedByKey})
					break
				}
			}
			c.Rep.Evaluations += 12
		}
		if unequal > 0 {
			c.KnownFinding("D14-large-selector-built-twice-unequal", fmt.Sprintf("a LabelSelector filter with more than twelve requirements, two of them on one key, built twice from the same selector compares unequal (%d of %d pairs): comparable filters built twice from the same arguments are not always equal", unequal, pairs),
				map[string]interface{}{"filter": bf.Enc().String(), "unequal_pairs": unequal, "pairs": pairs})
		}
	}
	// the accept vectors are also checked against the model
	acceptMatrix(c, terms, objs)
	c.Rep.Stats["terms"] = len(terms)
	c.Rep.Stats["equal_pairs"] = equalPairs
	c.Rep.Rule = "filter terms over every constructor (Null, All, Not, And, Or, NSName, Labels, LabelSelector, FN, NodeFilter, InvolvedFilter, SelectorMatchFilter, service/rc/workload PodsFilter with permuted sources, ingress ServicesFilter), each built twice, plus per constructor a pool of 60 random filters over tiny ranges (x12 in the thorough tier) filling one diagonal block each; FiltersEqual(left_i, right_j) on diagonal blocks and a seeded off-diagonal sample vs the model's filters_equal; for every pair the implementation reports equal, Accept agreement over the whole object universe (which includes label values containing the separators ',' and '=' of a printed selector). Non-trivial = pair reported equal; distinct by index pair. Names include five that are not two letters wide: prefixes of one another, one continuing with '-', and two (namespace, name) pairs that concatenate to the same string. Workload sources with coinciding namespace+name in every order; the left copy of every term has been used for Accept when it is compared with the fresh right copy."
	c.Sample(map[string]interface{}{"left": encs[3].String(), "right": encs[3].String(), "equal": goEqual(left[3], right[3])})
}

// ---------------------------------------------------------------------
// C19

// the reference ownership predicate of the property, written directly
func refSelects(w *Obj, p *Obj) bool {
	sub := func(m Map) bool {
		pl := p.Labels.Go()
		for _, kv := range m {
			if v, ok := pl[Str(kv.K)]; !ok || v != Str(kv.V) {
				return false
			}
		}
		return true
	}
	switch w.Spec {
	case SService:
		return len(w.Sel) > 0 && sub(w.Sel)
	case SRC:
		// the selector or, lacking one, the template labels
		if len(w.Sel) == 0 {
			return sub(w.Tmpl)
		}
		return sub(w.Sel)
	case SWorkload:
		if w.LSel == nil {
			return sub(w.Tmpl)
		}
		if !sub(w.LSel.Labels) {
			return false
		}
		pl := p.Labels.Go()
		for _, e := range w.LSel.Exprs {
			v, has := pl[Str(e.Key)]
			in := false
			for _, x := range e.Vals {
				if Str(x) == v {
					in = true
				}
			}
			switch e.Op {
			case 0:
				if !has || !in {
					return false
				}
			case 1:
				if has && in {
					return false
				}
			case 2:
				if !has {
					return false
				}
			case 3:
				if has {
					return false
				}
			}
		}
		return true
	}
	return false
}

func refOwns(ws []*Obj, p *Obj) bool {
	for _, w := range ws {
		if w.NS == p.NS && refSelects(w, p) {
			return true
		}
	}
	return false
}

func subsetsUpTo(n, k int, f func([]int)) {
	var rec func(start int, cur []int)
	rec = func(start int, cur []int) {
		f(cur)
		if len(cur) == k {
			return
		}
		for i := start; i < n; i++ {
			rec(i+1, append(cur, i))
		}
	}
	rec(0, nil)
}

func runC19(c *Ctx) {
	pods := podUniverse(2, 1)
	gopods := make([]metav1.Object, len(pods))
	for i, p := range pods {
		gopods[i] = p.Go()
	}
	lsels := []*LSel{
		nil, // falls back to template labels
		{},
		{Labels: Map{{1, 1}}},
		{Labels: Map{{1, 1}, {2, 2}}},
		{Exprs: []Expr{{Key: 1, Op: 0, Vals: []int{1, 2}}}},
		{Exprs: []Expr{{Key: 2, Op: 1, Vals: []int{3}}}},
		{Exprs: []Expr{{Key: 2, Op: 2}}},
		{Exprs: []Expr{{Key: 1, Op: 0, Vals: []int{1, 2}}, {Key: 1, Op: 1, Vals: []int{2}}}}, // two requirements on one key
		{Labels: Map{{1, 1}}, Exprs: []Expr{{Key: 1, Op: 2}, {Key: 1, Op: 1, Vals: []int{1}}}},
	}
	maps := []Map{nil, {{1, 1}}, {{1, 1}, {2, 2}}, {{2, 3}}}
	type family struct {
		name string
		tag  int
		cand []*Obj
	}
	var fams []family
	id := 100
	mk := func(o *Obj) *Obj { o.ID = id; id++; o.RV = "1"; return o }
	for _, kind := range []int{KRS, KDeployment, KDaemonSet, KStatefulSet, KJob} {
		var cand []*Obj
		for ns := 1; ns <= 2; ns++ {
			for i, ls := range lsels {
				tmpl := maps[i%len(maps)]
				cand = append(cand, mk(&Obj{Kind: kind, NS: ns, NM: 1 + i, Spec: SWorkload, LSel: ls, Tmpl: tmpl}))
			}
		}
		// a workload that carries no namespace (decoded from a manifest that omits it) owns no namespaced pod
		cand = append(cand, mk(&Obj{Kind: kind, NS: 0, NM: 9, Spec: SWorkload, LSel: lsels[2], Tmpl: maps[1]}))
		fams = append(fams, family{fmt.Sprintf("workload-kind-%d", kind), FWorkloadPods, cand})
	}
	{
		var cand []*Obj
		for ns := 1; ns <= 2; ns++ {
			for i, m := range maps {
				cand = append(cand, mk(&Obj{Kind: KService, NS: ns, NM: 1 + i, Spec: SService, Sel: m}))
			}
		}
		cand = append(cand, mk(&Obj{Kind: KService, NS: 0, NM: 9, Spec: SService, Sel: maps[1]}))
		// headless and ExternalName services select by their selector like any other
		cand = append(cand, mk(&Obj{Kind: KService, NS: 1, NM: 7, Spec: SService, Sel: maps[2], Scale: 1}))
		cand = append(cand, mk(&Obj{Kind: KService, NS: 2, NM: 8, Spec: SService, Sel: maps[1], Scale: 2}))
		fams = append(fams, family{"service", FServicePods, cand})
	}
	{
		var cand []*Obj
		for ns := 1; ns <= 2; ns++ {
			for i, m := range maps {
				cand = append(cand, mk(&Obj{Kind: KRC, NS: ns, NM: 1 + i, Spec: SRC, Sel: m, Tmpl: maps[(i+1)%len(maps)]}))
			}
		}
		fams = append(fams, family{"rc", FRCPods, cand})
	}
	maxk := 2
	if !c.Quick() {
		maxk = 3
	}
	var terms []*Filt
	for _, fam := range fams {
		subsetsUpTo(len(fam.cand), maxk, func(ix []int) {
			ws := make([]*Obj, len(ix))
			for i, j := range ix {
				ws[len(ix)-1-i] = fam.cand[j] // reversed, to exercise the sort
			}
			f := &Filt{Tag: fam.tag, Objs: ws}
			terms = append(terms, f)
			gf := f.Go()
			for j, p := range gopods {
				got, _ := goAccept(gf, p)
				want := refOwns(ws, pods[j])
				if got != want {
					replay := map[string]interface{}{"constructor": fam.name, "filter": f.Enc().String(), "pod": pods[j].Enc().String(), "accept": got, "ownership": want}
					// the known finding is exactly this: the filter behaves as the ownership
					// predicate WITHOUT its namespace clause; any other disagreement of the
					// replication controller filter is a violation like everyone else's
					loose := false
					for _, w := range ws {
						if refSelects(w, pods[j]) {
							loose = true
						}
					}
					if fam.tag == FRCPods && got == loose {
						c.KnownFinding("D5-rc-podsfilter-no-namespace", "replicationcontroller.PodsFilter accepts a pod of another namespace (no namespace scoping)", replay)
					} else {
						c.Violation("", "PodsFilter disagrees with the ownership predicate", replay)
					}
				}
			}
		})
	}
	// ingress -> services
	var ings []*Obj
	for ns := 1; ns <= 2; ns++ {
		ings = append(ings,
			mk(&Obj{Kind: KIngress, NS: ns, NM: 1, Spec: SIngress, Backend: 1}),
			mk(&Obj{Kind: KIngress, NS: ns, NM: 2, Spec: SIngress, Backend: 0, Paths: []int{2, 0, 3}}),
			mk(&Obj{Kind: KIngress, NS: ns, NM: 3, Spec: SIngress, Backend: 3, Paths: []int{1}}),
			mk(&Obj{Kind: KIngress, NS: ns, NM: 4, Spec: SIngress}))
	}
	// namespaces that are prefixes of one another / continue with '-'
	ings = append(ings,
		mk(&Obj{Kind: KIngress, NS: StrZu, NM: 1, Spec: SIngress, Backend: StrZzw}),
		mk(&Obj{Kind: KIngress, NS: StrZuEu, NM: 1, Spec: SIngress, Backend: 1}),
		mk(&Obj{Kind: KIngress, NS: StrZuz, NM: 1, Spec: SIngress, Backend: StrZw}))
	var svcs []*Obj
	for ns := 1; ns <= 3; ns++ {
		for nm := 1; nm <= 4; nm++ {
			svcs = append(svcs, mk(&Obj{Kind: KService, NS: ns, NM: nm, Spec: SService, Sel: Map{{1, 1}}}))
		}
	}
	for _, k := range [][2]int{{StrZu, StrZzw}, {StrZuEu, 1}, {StrZuz, StrZw}, {StrZu, StrZw}, {StrZuz, StrZzw}} {
		svcs = append(svcs, mk(&Obj{Kind: KService, NS: k[0], NM: k[1], Spec: SService, Sel: Map{{1, 1}}}))
	}
	var iterms []*Filt
	subsetsUpTo(len(ings), maxk, func(ix []int) {
		ws := make([]*Obj, len(ix))
		for i, j := range ix {
			ws[i] = ings[j]
		}
		f := &Filt{Tag: FIngressServices, Objs: ws}
		iterms = append(iterms, f)
		gf := f.Go()
		for _, s := range svcs {
			got, _ := goAccept(gf, s.Go())
			want := false
			for _, w := range ws {
				if w.NS != s.NS {
					continue
				}
				if w.Backend == s.NM {
					want = true
				}
				for _, p := range w.Paths {
					if p != 0 && p == s.NM {
						want = true
					}
				}
			}
			if got != want {
				c.Violation("", "ingress ServicesFilter disagrees with the backend set", map[string]interface{}{"filter": f.Enc().String(), "service": s.Enc().String(), "accept": got, "want": want})
			}
		}
	})
	// node / involved / selector-match
	others := append(otherKinds(5000), pods...)
	others = append(others, prefixObjs(5500)...)
	var typed []*Filt
	for _, f := range typedAtoms() {
		if f.Tag == FNode || f.Tag == FInvolved || f.Tag == FSelectorMatch {
			typed = append(typed, f)
		}
	}
	c.Rep.Rule = "sets of <=2 (quick) / <=3 (thorough) workloads over 2 namespaces, selectors from {nil->template labels, empty, one label, two labels, In, NotIn, Exists}, for replicaset/deployment/daemonset/statefulset/job/service/replicationcontroller PodsFilter x all pods over 2 namespaces x all label maps; ingress ServicesFilter over sets of ingresses (default backend, rule paths, empty names) x services of 3 namespaces; Node/Involved/SelectorMatch filters x pods, services, events, nodes, secrets. Plus 280 (7000) random typed filters (sets of up to three random services / replication controllers / workloads / ingresses with random selectors, templates, namespaces incl. none, backends; node, involved-object, selector-match filters with empty arguments) over 160 random objects. Real Accept vs extracted model and vs the ownership predicate written directly. Non-trivial = filter accepting some but not all candidates. Ingresses and services in namespaces that are prefixes of one another / continue with '-'. Involved-object filters over kinds that differ only in the case of a letter; node filters over dotted names that share their first label and a short name beside them."
	c.Sample(map[string]interface{}{"filter": terms[len(terms)/2].Enc().String(), "pod": pods[5].Enc().String()})
	acceptMatrix(c, terms, pods)
	acceptMatrix(c, iterms, svcs)
	acceptMatrix(c, typed, others)
	{
		rng := rand.New(rand.NewSource(c.Seed*31 + 19))
		n := 280
		if !c.Quick() {
			n = 7000
		}
		acceptMatrix(c, randAtoms(rng, typedTags, n), randObjs(rng, 160, 810000))
	}
	c.Rep.Stats["workload_sets"] = len(terms)
	c.Rep.Stats["ingress_sets"] = len(iterms)
}
