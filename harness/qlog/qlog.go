// Package qlog provides logutil.Log implementations for the harness: a
// silent one, and one that calls a hook at every log call (used as a
// schedule point by the concurrent scenarios).  No verdict depends on log
// text.
package qlog

import (
	logutil "github.com/boz/go-logutil"
)

type Hook func(component string)

type log struct {
	cmp  string
	hook Hook
}

// Silent discards everything.
func Silent() logutil.Log { return &log{} }

// Hooked calls hook(component) at every log call.
func Hooked(h Hook) logutil.Log { return &log{hook: h} }

func (l *log) point() {
	if l.hook != nil {
		l.hook(l.cmp)
	}
}

func (l *log) WithComponent(c string) logutil.Log { return &log{cmp: c, hook: l.hook} }

func (l *log) Trace(string, ...interface{}) string { l.point(); return "" }
func (l *log) Un(string)                           { l.point() }
func (l *log) Debugf(string, ...interface{})       { l.point() }
func (l *log) Infof(string, ...interface{})        { l.point() }
func (l *log) Warnf(string, ...interface{})        { l.point() }
func (l *log) Errorf(string, ...interface{})       { l.point() }
func (l *log) Fatalf(string, ...interface{})       { l.point() }

func (l *log) ErrWarn(err error, _ string, _ ...interface{}) error  { l.point(); return err }
func (l *log) ErrFatal(err error, _ string, _ ...interface{}) error { l.point(); return err }
func (l *log) Err(err error, _ string, _ ...interface{}) error      { l.point(); return err }
