// Package kobj describes objects and filter constructor terms as data, encodes
// them for the model runner, and builds the corresponding real Kubernetes
// objects and real kcache filters.  It contains no semantics of its own.
package kobj

import (
	"k8s.io/apimachinery/pkg/labels"
	"k8s.io/apimachinery/pkg/types"
	"time"
	"sync/atomic"
	"fmt"
	"sort"

	"verifharness/enc"

	"github.com/boz/kcache/filter"
	"github.com/boz/kcache/nsname"
	"github.com/boz/kcache/types/daemonset"
	"github.com/boz/kcache/types/deployment"
	"github.com/boz/kcache/types/event"
	"github.com/boz/kcache/types/ingress"
	"github.com/boz/kcache/types/job"
	"github.com/boz/kcache/types/pod"
	"github.com/boz/kcache/types/replicaset"
	"github.com/boz/kcache/types/replicationcontroller"
	"github.com/boz/kcache/types/service"
	"github.com/boz/kcache/types/statefulset"
	appsv1 "k8s.io/api/apps/v1"
	batchv1 "k8s.io/api/batch/v1"
	corev1 "k8s.io/api/core/v1"
	netv1beta1 "k8s.io/api/networking/v1beta1"
	metav1 "k8s.io/apimachinery/pkg/apis/meta/v1"
)

// Kinds (Base.v).
const (
	KPod = iota
	KService
	KRC
	KRS
	KDeployment
	KDaemonSet
	KStatefulSet
	KJob
	KEvent
	KIngress
	KNode
	KSecret
)

// Name interning: 0 is "", i>0 is a fixed-width lower-case string, so that
// the numeric order is Go's string order.
func Str(n int) string {
	if n == 0 {
		return ""
	}
	if n < 0 || n > StrMax {
		panic(fmt.Sprintf("name %d out of range", n))
	}
	if n == StrPrinted {
		// a label VALUE (never a key or a name) that contains the characters a
		// printed selector uses as separators: {aa: <this>} prints like {aa: ab, ac: ad}
		return Str(2) + "," + Str(3) + "=" + Str(4)
	}
	if sp, ok := strPrefix[n]; ok {
		return sp
	}
	n--
	return string([]byte{byte('a' + n/26), byte('a' + n%26)})
}

// Five names that are NOT of the fixed width: one is a prefix of another,
// one continues with '-' (which sorts before '/'), and two different
// (namespace, name) pairs concatenate to the same string ("zu"+"zzw" =
// "zuz"+"zw").  Their numeric order is still Go's string order, among
// themselves and against every fixed-width name below StrPrefixLo.
const (
	StrPrefixLo = 671
	StrZu       = 671 // "zu"
	StrZuEu     = 672 // "zu-eu"
	StrZuz      = 673 // "zuz"
	StrZw       = 674 // "zw"
	StrZzw      = 675 // "zzw"
)

var strPrefix = map[int]string{StrZu: "zu", StrZuEu: "zu-eu", StrZuz: "zuz", StrZw: "zw", StrZzw: "zzw",
	StrCaseA: "zzwA", StrCasea: "zzwa", StrDotX: "zzwa.x", StrDotY: "zzwa.y"}

// Four more, above StrPrinted, for kinds and node names only (nothing sorts
// those): two that differ only in the case of a letter, and two dotted names
// that share their first label with each other and with a short name.
const (
	StrCaseA = 677 // "zzwA"
	StrCasea = 678 // "zzwa"
	StrDotX  = 679 // "zzwa.x"
	StrDotY  = 680 // "zzwa.y"
	StrMax   = 680
)

// StrPrinted is the id of the separator-laden label value (see Str).
const StrPrinted = 26 * 26

var nsnameRoute atomic.Int64

// KV is one map entry.
type KV struct{ K, V int }

// Map is a Go map[string]string in key order.
type Map []KV

func (m Map) Go() map[string]string {
	if m == nil {
		return nil
	}
	r := make(map[string]string, len(m))
	for _, kv := range m {
		r[Str(kv.K)] = Str(kv.V)
	}
	return r
}

func (m Map) Enc() enc.T {
	ts := make([]enc.T, len(m))
	for i, kv := range m {
		ts[i] = enc.L(enc.I(kv.K), enc.I(kv.V))
	}
	return enc.L(ts...)
}

func (m Map) Sorted() Map {
	r := append(Map(nil), m...)
	sort.Slice(r, func(i, j int) bool { return r[i].K < r[j].K })
	return r
}

// Expr is a LabelSelectorRequirement.  Op: 0 In, 1 NotIn, 2 Exists, 3 DoesNotExist.
type Expr struct {
	Key  int
	Op   int
	Vals []int
}

// LSel is a *metav1.LabelSelector (nil pointer = nil selector).
type LSel struct {
	Labels Map
	Exprs  []Expr
}

func (s *LSel) Go() *metav1.LabelSelector {
	if s == nil {
		return nil
	}
	r := &metav1.LabelSelector{}
	if len(s.Labels) > 0 {
		r.MatchLabels = s.Labels.Go()
	}
	for _, e := range s.Exprs {
		var op metav1.LabelSelectorOperator
		switch e.Op {
		case 0:
			op = metav1.LabelSelectorOpIn
		case 1:
			op = metav1.LabelSelectorOpNotIn
		case 2:
			op = metav1.LabelSelectorOpExists
		case 3:
			op = metav1.LabelSelectorOpDoesNotExist
		}
		var vals []string
		for _, v := range e.Vals {
			vals = append(vals, Str(v))
		}
		r.MatchExpressions = append(r.MatchExpressions, metav1.LabelSelectorRequirement{Key: Str(e.Key), Operator: op, Values: vals})
	}
	return r
}

func (s *LSel) Enc() enc.T {
	if s == nil {
		return enc.L()
	}
	es := make([]enc.T, len(s.Exprs))
	for i, e := range s.Exprs {
		es[i] = enc.L(enc.I(e.Key), enc.I(e.Op), enc.Ints(e.Vals))
	}
	return enc.L(s.Labels.Enc(), enc.L(es...))
}

// Spec tags (Base.v `spec`).
const (
	SNone = iota
	SPod
	SService
	SRC
	SWorkload
	SEvent
	SIngress
)

// Obj is a model object.
type Obj struct {
	ID     int
	Kind   int
	NS, NM int
	RV     string
	Labels Map

	Spec     int
	Node     int   // SPod
	Sel      Map   // SService, SRC
	Tmpl     Map   // SRC, SWorkload
	LSel     *LSel // SWorkload
	IKind    int   // SEvent
	INS, INM int
	Backend  int   // SIngress
	Paths    []int // SIngress

	// Scale: spec.replicas of a workload (0: unset, 1: zero replicas, 2: three).
	// For a service: 1 = headless (clusterIP None), 2 = type ExternalName.
	// Ownership of pods does not depend on it; not part of the model's encoding.
	Scale int

	// Inc: the incarnation of the object under its name (0: no UID at all).  An
	// object deleted and re-created under the same name gets a new UID; no part
	// of the library may depend on it.  Not part of the model's encoding.
	Inc int

	// Terminating: the object carries a deletionTimestamp (graceful deletion in
	// progress); it is still listed and watched like any other object.  Not part
	// of the encoding for the model: no part of the library may depend on it.
	Terminating bool
}

func (o *Obj) Enc() enc.T {
	rv := make([]enc.T, len(o.RV))
	for i := 0; i < len(o.RV); i++ {
		rv[i] = enc.I(int(o.RV[i]))
	}
	var spec enc.T
	switch o.Spec {
	case SNone:
		spec = enc.L(enc.I(0))
	case SPod:
		spec = enc.L(enc.I(1), enc.I(o.Node))
	case SService:
		spec = enc.L(enc.I(2), o.Sel.Enc())
	case SRC:
		spec = enc.L(enc.I(3), o.Sel.Enc(), o.Tmpl.Enc())
	case SWorkload:
		spec = enc.L(enc.I(4), o.LSel.Enc(), o.Tmpl.Enc())
	case SEvent:
		spec = enc.L(enc.I(5), enc.I(o.IKind), enc.I(o.INS), enc.I(o.INM))
	case SIngress:
		spec = enc.L(enc.I(6), enc.I(o.Backend), enc.Ints(o.Paths))
	}
	return enc.L(enc.I(o.ID), enc.I(o.Kind), enc.I(o.NS), enc.I(o.NM), enc.L(rv...), o.Labels.Enc(), spec)
}

func EncObjs(os []*Obj) enc.T {
	ts := make([]enc.T, len(os))
	for i, o := range os {
		ts[i] = o.Enc()
	}
	return enc.L(ts...)
}

func (o *Obj) meta() metav1.ObjectMeta {
	var dt *metav1.Time
	if o.Terminating {
		t := metav1.NewTime(time.Unix(946684800, 0))
		dt = &t
	}
	var uid types.UID
	if o.Inc > 0 {
		uid = types.UID(fmt.Sprintf("uid-%d-%d-%d", o.NS, o.NM, o.Inc))
	}
	return metav1.ObjectMeta{
		UID:               uid,
		DeletionTimestamp: dt,
		Namespace:       Str(o.NS),
		Name:            Str(o.NM),
		ResourceVersion: o.RV,
		Labels:          o.Labels.Go(),
		// the ghost identity travels in an annotation so that observations can be
		// mapped back
		Annotations: map[string]string{"verif/id": fmt.Sprint(o.ID)},
	}
}

// ID recovers the ghost identity of a real object built by Go().
func ID(obj metav1.Object) int {
	var id int
	fmt.Sscan(obj.GetAnnotations()["verif/id"], &id)
	return id
}

func podTemplate(m Map) corev1.PodTemplateSpec {
	return corev1.PodTemplateSpec{ObjectMeta: metav1.ObjectMeta{Labels: m.Go()}}
}

// Go builds the real typed object.
func (o *Obj) replicas() *int32 {
	switch o.Scale {
	case 1:
		n := int32(0)
		return &n
	case 2:
		n := int32(3)
		return &n
	}
	return nil
}

func (o *Obj) Go() metav1.Object {
	m := o.meta()
	switch o.Kind {
	case KPod:
		return &corev1.Pod{ObjectMeta: m, Spec: corev1.PodSpec{NodeName: Str(o.Node)}}
	case KService:
		sp := corev1.ServiceSpec{Selector: o.Sel.Go()}
		switch o.Scale { // for a service: 1 = headless, 2 = ExternalName; which pods it selects does not depend on it
		case 1:
			sp.ClusterIP = corev1.ClusterIPNone
		case 2:
			sp.Type = corev1.ServiceTypeExternalName
			sp.ExternalName = "example.org"
		}
		return &corev1.Service{ObjectMeta: m, Spec: sp}
	case KRC:
		t := podTemplate(o.Tmpl)
		return &corev1.ReplicationController{ObjectMeta: m, Spec: corev1.ReplicationControllerSpec{Replicas: o.replicas(), Selector: o.Sel.Go(), Template: &t}}
	case KRS:
		return &appsv1.ReplicaSet{ObjectMeta: m, Spec: appsv1.ReplicaSetSpec{Replicas: o.replicas(), Selector: o.LSel.Go(), Template: podTemplate(o.Tmpl)}}
	case KDeployment:
		return &appsv1.Deployment{ObjectMeta: m, Spec: appsv1.DeploymentSpec{Replicas: o.replicas(), Selector: o.LSel.Go(), Template: podTemplate(o.Tmpl)}}
	case KDaemonSet:
		return &appsv1.DaemonSet{ObjectMeta: m, Spec: appsv1.DaemonSetSpec{Selector: o.LSel.Go(), Template: podTemplate(o.Tmpl)}}
	case KStatefulSet:
		return &appsv1.StatefulSet{ObjectMeta: m, Spec: appsv1.StatefulSetSpec{Replicas: o.replicas(), Selector: o.LSel.Go(), Template: podTemplate(o.Tmpl)}}
	case KJob:
		return &batchv1.Job{ObjectMeta: m, Spec: batchv1.JobSpec{Selector: o.LSel.Go(), Template: podTemplate(o.Tmpl)}}
	case KEvent:
		return &corev1.Event{ObjectMeta: m, InvolvedObject: corev1.ObjectReference{Kind: Str(o.IKind), Namespace: Str(o.INS), Name: Str(o.INM)}}
	case KIngress:
		ing := &netv1beta1.Ingress{ObjectMeta: m}
		if o.Backend != 0 {
			ing.Spec.Backend = &netv1beta1.IngressBackend{ServiceName: Str(o.Backend)}
		}
		if len(o.Paths) > 0 {
			var paths []netv1beta1.HTTPIngressPath
			for _, p := range o.Paths {
				paths = append(paths, netv1beta1.HTTPIngressPath{Backend: netv1beta1.IngressBackend{ServiceName: Str(p)}})
			}
			// two rules: one without HTTP (skipped by the code), one with the paths
			ing.Spec.Rules = []netv1beta1.IngressRule{
				{Host: "nohttp"},
				{IngressRuleValue: netv1beta1.IngressRuleValue{HTTP: &netv1beta1.HTTPIngressRuleValue{Paths: paths}}},
			}
		}
		return ing
	case KNode:
		return &corev1.Node{ObjectMeta: m}
	case KSecret:
		return &corev1.Secret{ObjectMeta: m}
	}
	panic("unknown kind")
}

// ---------------------------------------------------------------------
// Filter constructor terms.

const (
	FNull = iota
	FAll
	FNot
	FAnd
	FOr
	FNSName
	FLabels
	FLabelSelector
	FFn
	FNode
	FInvolved
	FSelectorMatch
	FServicePods
	FRCPods
	FWorkloadPods
	FIngressServices
)

type ID2 struct{ NS, NM int }

// Filt is a filter built by one of the library's constructors.
type Filt struct {
	Tag      int
	Children []*Filt // Not (1), And, Or, Fn (1: the predicate the func computes)
	IDs      []ID2   // NSName
	Map      Map     // Labels, SelectorMatch
	LSel     *LSel   // LabelSelector
	Names    []int   // Node
	K, NS, NM int    // Involved
	Objs     []*Obj  // *Pods, IngressServices
}

func (f *Filt) Enc() enc.T {
	ch := func() enc.T {
		ts := make([]enc.T, len(f.Children))
		for i, c := range f.Children {
			ts[i] = c.Enc()
		}
		return enc.L(ts...)
	}
	switch f.Tag {
	case FNull, FAll:
		return enc.L(enc.I(f.Tag))
	case FNot, FFn:
		return enc.L(enc.I(f.Tag), f.Children[0].Enc())
	case FAnd, FOr:
		return enc.L(enc.I(f.Tag), ch())
	case FNSName:
		ts := make([]enc.T, len(f.IDs))
		for i, id := range f.IDs {
			ts[i] = enc.L(enc.I(id.NS), enc.I(id.NM))
		}
		return enc.L(enc.I(f.Tag), enc.L(ts...))
	case FLabels, FSelectorMatch:
		return enc.L(enc.I(f.Tag), f.Map.Enc())
	case FLabelSelector:
		return enc.L(enc.I(f.Tag), f.LSel.Enc())
	case FNode:
		return enc.L(enc.I(f.Tag), enc.Ints(f.Names))
	case FInvolved:
		return enc.L(enc.I(f.Tag), enc.I(f.K), enc.I(f.NS), enc.I(f.NM))
	case FServicePods, FRCPods, FWorkloadPods, FIngressServices:
		return enc.L(enc.I(f.Tag), EncObjs(f.Objs))
	}
	panic("bad filter tag")
}

// Go builds the real filter through the library's own constructors.
func (f *Filt) Go() filter.Filter {
	switch f.Tag {
	case FNull:
		return filter.Null()
	case FAll:
		return filter.All()
	case FNot:
		return filter.Not(f.Children[0].Go())
	case FAnd, FOr:
		cs := make([]filter.Filter, len(f.Children))
		for i, c := range f.Children {
			cs[i] = c.Go()
		}
		// the caller's slice is the caller's: it is reused after the call
		var flt filter.Filter
		if f.Tag == FAnd {
			flt = filter.And(cs...)
		} else {
			flt = filter.Or(cs...)
		}
		for i := range cs {
			cs[i] = filter.FN(func(metav1.Object) bool { return i%2 == 0 })
		}
		return flt
	case FNSName:
		// every way a caller can make an id: the constructor, a struct literal,
		// parsing the printed form, a field assignment on a copy — rotating, so
		// that a term built twice uses different routes
		ids := make([]nsname.NSName, len(f.IDs))
		for i, id := range f.IDs {
			ns, nm := Str(id.NS), Str(id.NM)
			switch nsnameRoute.Add(1) % 4 {
			case 0:
				ids[i] = nsname.New(ns, nm)
			case 1:
				ids[i] = nsname.NSName{Namespace: ns, Name: nm}
			case 2:
				if p, err := nsname.Parse(ns + "/" + nm); err == nil {
					ids[i] = p
				} else {
					ids[i] = nsname.New(ns, nm)
				}
			default:
				x := nsname.New(ns, "zz")
				x.Name = nm
				ids[i] = x
			}
		}
		// the caller's slice is the caller's: it is reused (scribbled on) after the call
		arg := append(make([]nsname.NSName, 0, len(ids)+2), ids...)
		flt := filter.NSName(arg...)
		for i := range arg {
			arg[i] = nsname.New("scribbled", "over")
		}
		return flt
	case FLabels:
		// the caller's map is the caller's: it is changed after the call
		m := f.Map.Go()
		var flt filter.Filter
		if nsnameRoute.Add(1)%2 == 0 {
			flt = filter.Labels(m)
		} else {
			// the same filter through the exported Selector constructor
			flt = filter.Selector(labels.SelectorFromSet(m))
		}
		scribbleMap(m)
		return flt
	case FLabelSelector:
		ls := f.LSel.Go()
		var flt filter.Filter
		if sel, err := metav1.LabelSelectorAsSelector(ls); err == nil && nsnameRoute.Add(1)%2 == 1 {
			flt = filter.Selector(sel)
		} else {
			flt = filter.LabelSelector(ls)
		}
		if ls != nil {
			scribbleMap(ls.MatchLabels)
			for i := range ls.MatchExpressions {
				ls.MatchExpressions[i].Key = "scribbled"
				for j := range ls.MatchExpressions[i].Values {
					ls.MatchExpressions[i].Values[j] = "over"
				}
			}
		}
		return flt
	case FFn:
		inner := f.Children[0].Go()
		return filter.FN(func(o metav1.Object) bool { return inner.Accept(o) })
	case FNode:
		names := make([]string, len(f.Names))
		for i, n := range f.Names {
			names[i] = Str(n)
		}
		flt := pod.NodeFilter(names...)
		for i := range names {
			names[i] = "scribbled"
		}
		return flt
	case FInvolved:
		// both constructors, rotating: from the three strings, and from an object
		// (of the core group, and of a named API group: the kind is the bare kind)
		switch r := nsnameRoute.Add(1) % 3; r {
		case 0:
			return event.InvolvedFilter(Str(f.K), Str(f.NS), Str(f.NM))
		default:
			o := &metav1.PartialObjectMetadata{
				TypeMeta:   metav1.TypeMeta{Kind: Str(f.K), APIVersion: []string{"", "v1", "apps/v1"}[r]},
				ObjectMeta: metav1.ObjectMeta{Namespace: Str(f.NS), Name: Str(f.NM)},
			}
			return event.InvolvedObjectFilter(o)
		}
	case FSelectorMatch:
		m := f.Map.Go()
		flt := service.SelectorMatchFilter(m)
		scribbleMap(m)
		return flt
	case FServicePods:
		var l []*corev1.Service
		for _, o := range f.Objs {
			l = append(l, o.Go().(*corev1.Service))
		}
		return service.PodsFilter(l...)
	case FRCPods:
		var l []*corev1.ReplicationController
		for _, o := range f.Objs {
			l = append(l, o.Go().(*corev1.ReplicationController))
		}
		return replicationcontroller.PodsFilter(l...)
	case FWorkloadPods:
		return workloadPods(f.Objs)
	case FIngressServices:
		var l []*netv1beta1.Ingress
		for _, o := range f.Objs {
			l = append(l, o.Go().(*netv1beta1.Ingress))
		}
		return ingress.ServicesFilter(l...)
	}
	panic("bad filter tag")
}

// workloadPods dispatches on the kind of the sources (all of one kind).
func workloadPods(objs []*Obj) filter.Filter {
	kind := KRS
	if len(objs) > 0 {
		kind = objs[0].Kind
	}
	switch kind {
	case KRS:
		var l []*appsv1.ReplicaSet
		for _, o := range objs {
			l = append(l, o.Go().(*appsv1.ReplicaSet))
		}
		return replicaset.PodsFilter(l...)
	case KDeployment:
		var l []*appsv1.Deployment
		for _, o := range objs {
			l = append(l, o.Go().(*appsv1.Deployment))
		}
		return deployment.PodsFilter(l...)
	case KDaemonSet:
		var l []*appsv1.DaemonSet
		for _, o := range objs {
			l = append(l, o.Go().(*appsv1.DaemonSet))
		}
		return daemonset.PodsFilter(l...)
	case KStatefulSet:
		var l []*appsv1.StatefulSet
		for _, o := range objs {
			l = append(l, o.Go().(*appsv1.StatefulSet))
		}
		return statefulset.PodsFilter(l...)
	case KJob:
		var l []*batchv1.Job
		for _, o := range objs {
			l = append(l, o.Go().(*batchv1.Job))
		}
		return job.PodsFilter(l...)
	}
	panic("not a workload kind")
}

// scribbleMap changes a map the caller handed to a constructor (what a caller
// may do with its own map afterwards): every value replaced, a key added.
func scribbleMap(m map[string]string) {
	if m == nil {
		return
	}
	for k := range m {
		m[k] = "over"
	}
	m["scribbled"] = "over"
}
